#!/usr/bin/env python3
"""Generates MANIFEST.json and engines.json from the table below (single source of truth)."""
import json, os
ROOT = os.path.dirname(os.path.abspath(__file__))
props = [json.loads(l) for l in open(os.path.join(ROOT, "properties.jsonl"))]
ids = [p["id"] for p in props]

# id -> (engine binary, level category, technique, level text, level note, design_ref)
CHECKS = {}
def add(pid, engine, category, technique, text, note, ref):
    CHECKS[pid] = dict(engine=engine, category=category, technique=technique, text=text, note=note, ref=ref)

E1_NOTE = ("Real Raft/BufferedRaftLog/RaftMembership/commit-handler code driven by a simulated transport, clock, storage "
           "engine and state machine; bounded by the stated node counts, depth and deviation budget (evidence lists the "
           "bounds completed); assumptions A1-A5 of DESIGN.md section 5.")
E1_TECH = "explicit-state exploration of the real handlers (DFS with re-execution, fingerprint dedup, deviation-bounded)"
def e1(pid, text):
    add(pid, "clustermc", "model_checking", E1_TECH, text, E1_NOTE, f"DESIGN.md section 4 {pid}")

e1("C01", "Every interleaving of timer expiries (incl. a timer that becomes due in the middle of a node's event processing), vote answers, AppendEntries deliveries, stream breaks, crashes/stops/restarts and one client write in a 3-voter cluster (5 voters in the thorough tier) within the depth/deviation bounds is executed on the real role handlers; the oracle records which node sends AppendEntries or accepts writes in each term.")
e1("C02", "All vote/term histories of a 3-voter cluster in which any node may crash (process) or stop gracefully after any event and restart from its persisted image, within the bounds; oracle: no node's granted votes in one term go to two candidates, and no node's term ever decreases, across incarnations.")
e1("C04", "All reachable cluster states (3 voters, per-request cap 2, pipelined and merged AppendEntries, stream breaks, leader changes, 2 client writes; prefixes with a follower lagging by 4 entries) within the bounds; oracle on every state: pairwise log matching (same index+term => same payload and identical earlier entries) and every single log gap-free and term-monotone.")
e1("C05", "Same space as C04 plus process/power crashes and restarts of a minority; history variable of every entry a leader committed; oracle: every later-term leader holds it, and no node overwrites or discards a committed entry it held (except below its purge boundary).")
e1("C06", "3 voters with gated (lagging) state-machine applies, put/CAS/delete/TTL-put commands, within the bounds; oracle from the apply observer: per node incarnation the applied indexes are exactly last_applied+1, +2, ... (no gap, no repeat) and every index carries one command cluster-wide.")
e1("C07", "Same space as C04 (followers with lagging/stale logs, capped batches, heartbeats carrying commit indexes, merged deliveries); oracle on every follower state: every entry at or below its commit index equals the entry the leader committed at that index.")
e1("C09", "Same space as C05; oracle at every leader commit-index advance to N: N is of the leader's current term and a majority of the voters in the leader's membership (live logs and crashed nodes' disk images) actually hold the leader's entry N. Complemented by the regression replay of the repaired match_index defect.")
e1("C14", "Writes with unique values sent to every role (leader, follower, candidate), with back-pressure limit 1 and pairs in one batch, interleaved with elections and step-downs within the bounds; oracle: a value whose request was rejected (not leader / invalid / resource exhausted) is never passed to any node's apply.")
e1("C29", "Single and paired put/CAS/delete writes against a leader with a gated state machine, interleaved with replication, commits and elections within the bounds; oracle: a success response implies the request's own entry was applied on the answering node and its commit index covers it, and the reported CAS outcome equals the applied one (unique values tie responses to entries).")
e1("C31", "Same space as C01 with a real leader-change watch registered on every node and sampled after every turn; oracle: per node the notified term never decreases, at most one leader id is ever announced per term cluster-wide.")
add("C36", "clustermc", "model_checking", "exhaustive differential enumeration (merged vs one-at-a-time) on a real follower node",
    "All queues of 1..3 AppendEntries over an alphabet of heartbeats, contiguous/overlapping/non-adjacent batches, commit bumps and newer/stale terms, on 3 follower base logs and merge limits 2 and 1000, are processed twice by a real follower (one request per loop turn vs all queued before one turn, i.e. through merge_append_entries); log, commit index and per-sender acknowledgements are compared.",
    "Real Raft loop body via the verif_turn hook; requests within one term carry non-decreasing commit indexes (one leader's FIFO stream); a merged success may carry a different match point as long as it never over-claims.", "DESIGN.md section 4 C36")
add("C08", "logmc", "model_checking", "exhaustive input-grid enumeration through the real request-building and follower-append code",
    "Full grid (leader log length and term pattern, per-peer next index, number of new entries, per-request cap) through the real generate_new_entries + prepare_peer_entries + build_append_request; every request is checked for contiguity and fed to the real follower path on every follower log of the family (matching prefixes, stale-term divergence at every index); oracle: follower log stays gap-free and keeps every agreeing entry.",
    "Real ReplicationHandler and BufferedRaftLog over the in-memory store; bounded grid listed in the evidence.", "DESIGN.md section 4 C08")
add("C19", "logmc", "model_checking", "breadth-first enumeration of all operation sequences on the real BufferedRaftLog against a plain reference log",
    "All sequences (depth 6 quick / 8 thorough) of leader appends (through generate_new_entries), conflict-aware follower appends (matching, overlapping, conflicting, prev=0, non-matching prev), purges, resets and restarts over indexes <= 6 and terms <= 3; after every operation every query (first/last ids, last_log_id, entry, entry_term, first/last index of a term, all range reads, append result) is compared with a plain Vec-based log.",
    "Real BufferedRaftLog with its IO task run locally to quiescence; in-memory ideal store; state = (reference log, allocation cursor).", "DESIGN.md section 4 C19")
add("C22", "smmc", "model_checking", "exhaustive (state, chunk) enumeration on the real File and RocksDB state machines against the reference semantics",
    "From each of the 16 key-value states over keys {a,b} x values {absent,'',x,y}, every chunk of up to 2 (quick) / 3 (thorough) commands (puts, deletes, CAS with every expected value) is applied as one batch to both real engines and compared with the sequential reference: success flags, get, get_multi (39 key lists), scan_prefix, plus a 64-subset sweep over 0xFF prefix-boundary keys; by induction over the state this covers every sequence and every chunking.",
    "State-machine behaviour depends only on the key-value contents; real engines in a scratch tmpfs directory.", "DESIGN.md section 4 C22")


E1M = " Configurations: 3 voters + 2 joining learners from an established leader; the 3->5 voter promotion applied on the leader and the new voters but not on the old followers; a node bootstrapped alone, then joined by 2 learners; the same cluster after expansion to 3 voters (with crash/stop/restart)."
e1("C03", "Membership histories (join, catch-up, BatchPromote, apply lag) explored exhaustively within the bounds on the real RaftMembership; every election is observed: a node that becomes leader without any other node's granted vote must have no other voter in its applied membership." + E1M)
e1("C26", "Same membership exploration; history variable of every quorum ACTUALLY USED (each won election: candidate + granting voters and the voter set asked; each leader commit advance: the voters whose logs really hold the entry, and the leader's voter set). Oracle: two elections of one term, and an election of term T vs a commit of an earlier term, must share a node. The known defect (BatchPromote adds two voters in one step) is recorded in known_findings.json with a guard on 'configurations differ by two or more voters'; a disjoint pair under the same or single-step configurations is reported as a violation." + E1M)
e1("C27", "Same membership exploration; oracles: a node whose role is learner never grants a vote; a join is answered successfully only once a committed AddNode entry for it exists; a node outside the initial voter set acts as voter (role follower/candidate/leader or Active voter in its own view) only after a committed (Batch)Promote names it; learners are excluded from the commit majority computed by the C09 oracle." + E1M)
e1("C28", "Same membership exploration plus crash/graceful stop and restart of any node at any point; oracle: right after restart (before anything new is delivered) the node's members()/roles/statuses equal what it had applied before going down. The known defect (membership is rebuilt from the static initial_cluster at every start) is recorded with a guard on 'fell back to its static initial configuration'; any other mismatch is a violation." + E1M)
add("C37", "clustermc", "model_checking", "exhaustive input-grid enumeration through the real client-to-state-machine encode/decode chain",
    "Grid over keys/values {'', 'k', 0x00, 0xFF 0xFF 0xFF, 300 bytes}, expected values {absent, '', x}, TTLs {none, 0, 1, u64::MAX} for put, put-with-TTL, delete and CAS: each operation is proposed to a real single-voter leader (ClientCmd::Propose -> write_op_to_proto -> log entry -> decode_entries -> apply) and the Command observed at the state machine is compared field by field with the submitted operation. The known defect (TTL 0 decodes as 'no TTL') is recorded with a guard on that input class.",
    "Real LeaderState::push_client_cmd, log, commit handler and apply path on a simulated single-node cluster.", "DESIGN.md section 4 C37")
add("C18", "logmc", "fault_enumeration", "breadth-first enumeration of operation sequences on the real BufferedRaftLog with a crash (process + power-loss image) after every step",
    "All sequences (depth 5 quick / 7 thorough) of leader appends, conflict-aware follower appends, purges, resets, flush() and 'IO task runs until idle' on the real BufferedRaftLog + its real batch_processor over a store with a written/synced split; after every operation both crash images are reopened with a fresh BufferedRaftLog: the recovered log must be gap-free, contain every entry covered by durable_index()/a successful flush() and not truncated since, and contain nothing a truncation replaced. Repeated under several fixed select! seeds of the IO task.",
    "Crash points are the boundaries between log API calls and IO-task runs; in-memory model store (File/RocksDB stores' own crash behaviour: C20/C21).", "DESIGN.md section 4 C18")
add("C20", "storemc", "fault_enumeration", "exhaustive operation-sequence enumeration (with reopen at every position) on the real File and RocksDB log stores against a reference map, plus crash-point images inside replace_range",
    "All sequences (length <= 3 quick / 4 thorough) of persist_entries (ascending, out-of-order and re-written index sets), truncate, replace_range, purge, reset, flush on the real FileLogStore and RocksDB log store, with a reopen inserted at every position; after every step entries, last_index and purge boundary are compared live vs reopened vs reference vs the other engine; replace_range is additionally cut at every guarded crash point and the image must equal the pre- or post-state. Two File-store defects are recorded as known findings with input-class guards.",
    "Real storage engines in a scratch tmpfs directory; File crash images are directory copies at guarded crash-point callbacks; RocksDB internals trusted.", "DESIGN.md section 4 C20")
add("C21", "storemc", "fault_enumeration", "crash-point and torn-write enumeration of save_hard_state on the real File and RocksDB meta stores",
    "Sequences of 1..3 saves with distinct (term, vote) values on the real File meta store: a crash image is taken at every guarded crash point inside save (after temp create, after write, after flush, after rename) plus torn variants of the last write (0, 1, half, len-1 bytes); each image is reopened and load_hard_state must return the previous or the new value (never undecodable/absent once a save completed). RocksDB meta store: save/reopen sequences.",
    "Process-crash semantics for both stores; power-loss only demands old-or-new as the statement does; RocksDB WAL internals trusted.", "DESIGN.md section 4 C21")
add("C34", "apimc", "model_checking", "exhaustive input-grid enumeration of RaftConfig::validate over boundary values",
    "Full product of boundary values {0,1,2,typical,2^32,u64::MAX-1,u64::MAX} for the four lease/election fields (2401 tuples) crossed one-at-a-time and pairwise with the remaining seven numeric fields; for every configuration the real validate() is called and, when it accepts, every postcondition of the statement is evaluated in exact (u128) arithmetic.",
    "Validators are independent per sub-struct except the lease-vs-election cross check, which gets the full product.", "DESIGN.md section 4 C34")

add("C15", "smmc", "fault_enumeration", "crash-image enumeration (every guarded crash point, torn WAL appends, operation boundaries; nested crash-restart-crash) on the real File and RocksDB state machines",
    "Scenarios = segments of {apply a chunk of 1..2 commands, checkpoint/flush} over put / put-empty / delete / CAS-from-absent / CAS-from-value / TTL-put on the real engines; a directory image is taken at every guarded crash point inside the File engine (apply: after WAL, after memory, after last_applied; checkpoint: data/metadata temp write and rename, WAL clear; WAL replay) and at every operation boundary (both engines), plus WAL appends torn at 1/half/len-1 bytes. Every distinct image is reopened: the data must equal the reference state at the reported applied index, and re-applying the committed suffix (as the commit handler does) must reproduce the reference state and success flags. Images of the smaller scenarios are continued with further segments (restart, more operations, crash again).",
    "Process-crash semantics (bytes written so far survive); RocksDB images only at operation boundaries (its WAL/manifest are trusted); bounded command alphabet and scenario lengths listed in the evidence.", "DESIGN.md section 4 C15")
add("C23", "smmc", "model_checking", "exhaustive operation-sequence enumeration on the real File and RocksDB state machines with a real TtlLease under a harness-owned wall clock",
    "Every sequence (first op a write; depth 4/3 quick, 6/5 thorough for File/RocksDB) over {put with TTL, put, delete, CAS on the current value, clock advance, expiry cleanup, graceful restart, process crash + reopen, snapshot generate + install on a fresh instance}; CLOCK_REALTIME is frozen and moved only by the harness (clock_gettime defined in the executable, self-tested). After every operation get(k) is compared with the reference (no comparison while a TTL has elapsed but no cleanup has run); every sequence ends with 'advance past every TTL + cleanup'. Plus n keys under TTL (n in 2,11,12,24) of which exactly one is due, for every choice of that key. Two crash-related defects (TTL table only persisted by a graceful stop) are recorded as known findings with guards on their specific cause.",
    "One key; TTL state observed through get() only; restart mirrors EmbeddedEngine::stop ordering.", "DESIGN.md section 4 C23")

add("C16", "smmc", "model_checking", "exhaustive enumeration of (command sequence, retention, snapshot point, concurrent apply) through the real create_snapshot / chunk stream / install path, then log replay, on both engines",
    "Every command sequence (File <= 3 quick / 4 thorough, RocksDB one shorter) over {put, two CAS forming a non-idempotent chain, delete, TTL put, put} x retained_log_entries in {1,2,3} x snapshot after every prefix x {no concurrent apply / the apply worker applies the next entry through the handler while create_snapshot sits between its last_applied() read and the data copy}: real create_snapshot on a source, real load_snapshot_data chunk stream, real apply_snapshot_stream_from_leader on a fresh node, then replay of the log after the recorded boundary. Oracles: installed state == reference at last_included, last_applied == last_included, state after replay == reference after the whole log. The known defect (boundary is retained_log_entries behind the captured state; pinned by integration tests) is recorded with a guard on exactly that cause.",
    "One declared interleaving point between snapshot generation and the apply worker (reached through a delegating StateMachine wrapper); TTL compared as 'which keys carry a TTL'.", "DESIGN.md section 4 C16")
add("C17", "smmc", "fault_enumeration", "exhaustive enumeration of single and paired chunk-stream faults fed to the real snapshot receive/install path",
    "A real multi-chunk snapshot stream is mutated by every single fault and every ordered pair from {drop, duplicate, swap, checksum corruption, data corruption, other leader id, other leader term, missing metadata, wrong total, early close, stall until the receiver's timeout} and fed to the real apply_snapshot_stream_from_leader of a follower holding a different state; oracle: the complete in-order stream is accepted and yields exactly the snapshot's state, every faulty stream is rejected and leaves key-value contents, TTL keys, applied index, snapshot metadata and the final files of the snapshot directory untouched. File engine in the quick tier, File + RocksDB in the thorough tier.",
    "Chunk-level checksums; streams in which the sender lies consistently about total_chunks are outside the fault list and not judged; crash points of the File install path are covered by C15's sweep of the persist functions.", "DESIGN.md section 4 C17")

add("C25", "smmc", "model_checking", "exhaustive enumeration of scan/apply interleavings at the declared yield points of the real state machines, plus an input grid over prefix-boundary key sets",
    "Part 1: every subset of 0xFF-boundary keys (64 quick / 256 thorough) x 8 prefixes on both engines: result == reference filter and revision == applied index. Part 2: 3 base states x 7 chunks x 3 prefixes x every yield point between the steps in which apply publishes data and applied index and in which scan reads entries and revision (File: after WAL append / after the in-memory update / after the index update; RocksDB: after the batch write, and inside scan after the iteration): the other activity is started on its own thread exactly there (if a lock of the outer activity blocks it, it completes afterwards), so every interleaving of one scan and one apply at these points is executed; oracle: entries == reference state at the revision the scan reports. The RocksDB empty-prefix defect (pinned by a unit test) is a recorded known finding.",
    "Interleavings at the declared yield points only; RocksDB internals trusted; one scanner and one applier.", "DESIGN.md section 4 C25")

E1T = " Timed mode: virtual time passes only through Tick (jump to the earliest timer deadline of a live node; that node's tick fires), election timeouts 10 s + 2 s x node position, heartbeat 3 s, lease 5 s, request deadline 7 s; the lease clock (now_ms) and tokio's paused clock are one harness-owned clock."
E1T_NOTE = E1_NOTE + " Timed runs assume perfect shared clocks and exact (non-random) election timeouts per node; paths in which a voter's own timer is due at the instant it is asked for a vote are not representable and are counted, not judged."
def e1t(pid, text):
    add(pid, "clustermc", "model_checking", E1_TECH + ", timed variant", text + E1T, E1T_NOTE, f"DESIGN.md section 4 {pid}")
e1t("C10", "Client histories on key a (puts with unique values, linearizable reads) against a 3-voter cluster: from an established leader with one process crash/restart at any point; with node 3 cut off from the leader until it starts an election; with a lagging (gated) state machine on the leader; and an acknowledged write followed by a graceful stop of the whole cluster in every order, restart and re-election. Oracle: brute-force linearizability (Wing-Gong search) of the recorded invoke/response history; writes with unknown outcome may or may not have taken effect. The known defect (votes granted while a leader's lease runs) is recorded with a guard on that root cause.")
e1t("C11", "Same timed exploration with reads under the linearizable policy: established leader; node 3 cut off and elected with node 2's vote while the old leader's lease is fresh (leader isolation longer than the lease is reached through further ticks); leader with a gated state machine (apply lag). Oracle: linearizability of the client history. Known defect recorded as for C10.")
e1t("C12", "Same timed exploration with reads under the lease policy against every node that believes it is leader. Oracle, at every lease read answered from local state: the answering node is in the leader role and no other node has already become leader of a later term (the lease window must end before any other node can win an election). The configuration clause (lease shorter than the minimum election timeout) is decided by C34's grid. Known defect recorded: followers grant votes while still following a live leader, so a new leader is elected inside the old leader's lease window.")

e1t("C30", "Writes (put, CAS), linearizable and lease reads and a write+read pair in one drain cycle against an established leader, a freshly elected leader whose no-op is not committed yet, and a leader whose state machine stalls; followed by any of: time passing with nothing delivered (permanent quorum loss), elections / higher-term vote requests (step-down), a follower crash, a failing apply (fatal error: the node exits and its channels close). The explorer appends to EVERY explored path a closure in which only time passes (up to 8 further timer expiries, votes unanswered). Oracle after every event: no request accepted by a live node is older than its deadline (7 s) plus tick slack without an answer (value, error or closed channel).")
e1t("C32", "Fault prefixes (process/power crashes and graceful stops of up to a minority, restarts, broken replication streams, withheld messages, elections at their timer deadlines) from boot and under an established leader; the explorer appends to EVERY explored path the recovery closure: every down node restarts, every message is delivered in FIFO order, timers expire at their deadlines, and once a leader has confirmed itself one write is issued (bounded number of fair steps). Oracle: a leader exists, the write is acknowledged, and every live voter has applied up to the leader's commit index. Liveness is decided for this canonical fair continuation only.")

add("C13", "apimc", "model_checking", "exhaustive matrix enumeration on simulated clusters of real Raft nodes with the real read handles",
    "Full matrix: server default policy x allow_client_override x node state {leader with expired lease and no reachable quorum; leader with valid lease and lagging state machine; follower; candidate; learner} x client policy {none, linearizable, lease, eventual} x path {Raft command path; EmbeddedReadHandle::get_batch; StandaloneReadHandle::get_batch + ReadActor} = 360 cases, each on a fresh cluster. The policy actually used is identified from behaviour (answers locally / waits for quorum or apply / refuses with not-leader) and must equal (override allowed ? client-or-default : default); non-leaders must refuse linearizable and lease reads with a not-leader error.",
    "The gRPC handler's own routing lines are represented by calling StandaloneReadHandle::get_batch for requests naming the eventual/lease policy and the command path otherwise (what handle_client_read does); tonic transport not exercised.", "DESIGN.md section 4 C13")
add("C35", "apimc", "model_checking", "exhaustive enumeration of (state, key list, read path) on a simulated cluster of real Raft nodes with the real read handles",
    "9 states (keys a,b each absent / empty / x) x all 39 key lists of length 1..3 over {a,b,c} (duplicates, missing key) x {EmbeddedReadHandle under eventual/lease/linearizable, StandaloneReadHandle + ReadActor under eventual/lease, Raft command path under linearizable/eventual, gRPC fast-path response builder}: one result per requested key, in request order, empty value distinct from absent. StateMachine::get_multi on both engines is covered by C22's sweep.",
    "The gRPC client's alignment lines are mirrored on the server's real response; tonic transport not exercised.", "DESIGN.md section 4 C35")

add("C24", "apimc", "model_checking", "exhaustive action-sequence enumeration on the real WatchRegistry + WatchDispatcher task fed by the real apply path",
    "Every action sequence up to depth 5 (quick) / 6 (thorough) with at least one registration over {apply one chunk (put, delete, failing CAS, a three-entry chunk larger than the broadcast capacity of 2, ...), let the dispatcher run to idle, drain / receive at a watcher, register exact '/a', register prefix '/a/', drop a watcher, heartbeat} x watcher buffer {1,2}; each sequence is followed by 'dispatch everything, drain everybody'. Oracle per watcher: every data event is a committed change of a watched key with its content (no event for a failed CAS), revisions strictly increase, nothing follows CANCELED, and the delivered revisions are a gap-free prefix of the watched changes since registration - complete unless the stream ended with CANCELED or the watcher went away.",
    "Dispatcher and producers interleave at the granularity of the listed actions (paused current-thread runtime); progress events only required not to follow CANCELED.", "DESIGN.md section 4 C24")

e1t("C33", "Two parts under one command. Engine part: every sequence over {apply, create_snapshot through the real handler, graceful restart, crash restart} (length <= 5 quick / 6 thorough) on the real File and RocksDB state machines; after every restart the latest snapshot's metadata must still be known and its archive must still stream (what the leader's replication path needs for peers below its purge boundary). Cluster part (timed explorer, snapshots enabled, per-request cap 2): node 3 is down while the leader commits four writes; from the moment it returns - with the leader's snapshot/purge either still to come (timing explored: Snapshot events on any node, ticks, deliveries, a leader crash/stop/restart, one more write, snapshot pushes delivered or lost) or already done - every path is followed by the recovery closure (all messages and snapshot pushes delivered, timers expire, one probe write). Oracles: a node's purge boundary never exceeds what is committed nor the last_included index of the snapshot it holds; after the closure a leader exists, the probe write is acknowledged and node 3 has applied everything committed (by log or by snapshot).")

NOT_BUILT = "check not built yet (work in progress, DESIGN.md section 10 build order); no verdict is claimed for this property"

manifest = {
    "version": 1,
    "setup_cmd": "cd /verif/mc && CARGO_NET_OFFLINE=true cargo build --release --offline",
    "hooks": {
        "guard": "cargo feature verif-hooks (d-engine-core, d-engine-server)",
        "enable": "path dependencies in /verif/mc/Cargo.toml enable features = [\"verif-hooks\"]; every ./check run rebuilds incrementally from /repo's working tree",
        "baseline_off_cmd": "cd /repo && cargo nextest run --workspace --no-fail-fast --tool-config-file pb:/w/lib/nextest.toml --profile pb --test-threads 8 --offline",
        "source_commits": [],
        "add_only": True,
    },
    "engines": [],
    "checks": [],
    "not_applicable": [],
    "notes": "Exit codes of every command: 0 held / only KNOWN-FINDING lines, 1 VIOLATION, 2 machinery error (never a verdict). All checks rebuild from /repo's working tree through ./check.",
}
hooks_file = os.path.join(ROOT, "hook_commits.txt")
if os.path.exists(hooks_file):
    manifest["hooks"]["source_commits"] = [l.split()[0] for l in open(hooks_file) if l.strip()]
engines = {}
for pid in ids:
    if pid in CHECKS:
        c = CHECKS[pid]
        manifest["checks"].append({
            "property_id": pid,
            "quick_cmd": f"./check {pid} --tier quick",
            "thorough_cmd": f"./check {pid} --tier thorough",
            "evidence_file": f"/verif/evidence/{pid}.json",
            "replay_cmd_template": f"./check {pid} --replay {{path}}",
            "engine": c["engine"],
            "level_claimed": {"category": c["category"], "text": c["text"], "design_ref": c["ref"]},
            "level_note": c["note"],
            "technique": c["technique"],
        })
        engines.setdefault(c["engine"], []).append(pid)
    else:
        manifest["not_applicable"].append({"property_id": pid, "reason": NOT_BUILT})
KINDS = {
    "clustermc": "E1 explicit-state exploration of a simulated cluster of real Raft nodes",
    "logmc": "E2 exhaustive operation-sequence / input-grid enumeration on BufferedRaftLog and replication arithmetic",
    "storemc": "E3 operation-sequence and crash-point enumeration on File/RocksDB log+meta stores",
    "smmc": "E4 operation-sequence, crash-point and schedule enumeration on File/RocksDB state machines",
    "apimc": "E5 input-grid and action-sequence enumeration at node/handler level",
}
for e, ps in engines.items():
    manifest["engines"].append({"name": e, "path": f"/verif/mc/src/bin/{e}.rs", "serves_properties": ps, "kind_free_text": KINDS.get(e, "")})
json.dump(manifest, open(os.path.join(ROOT, "MANIFEST.json"), "w"), indent=1)
json.dump({pid: c["engine"] for pid, c in CHECKS.items()}, open(os.path.join(ROOT, "engines.json"), "w"), indent=1)
print("checks:", len(manifest["checks"]), "not_applicable:", len(manifest["not_applicable"]))
