#!/usr/bin/env python3
"""Generates MANIFEST.json and engines.json from the table below (single source of truth)."""
import json, os
ROOT = os.path.dirname(os.path.abspath(__file__))
props = [json.loads(l) for l in open(os.path.join(ROOT, "properties.jsonl"))]
ids = [p["id"] for p in props]

# id -> (engine binary, level category, technique, level text, level note, design_ref)
CHECKS = {}
def add(pid, engine, category, technique, text, note, ref):
    CHECKS[pid] = dict(engine=engine, category=category, technique=technique, text=text, note=note, ref=ref)

E1_NOTE = ("Real Raft/BufferedRaftLog/RaftMembership/commit-handler code driven by a simulated transport, clock, storage "
           "engine and state machine; bounded by the stated node counts, depth and deviation budget (evidence lists the "
           "bounds completed); assumptions A1-A5 of DESIGN.md section 5.")
add("C01", "clustermc", "model_checking", "explicit-state exploration of the real handlers (DFS with re-execution, fingerprint dedup, deviation-bounded)",
    "Every interleaving of timer expiries, vote answers, AppendEntries deliveries, stream breaks, crashes/stops/restarts and one client write in a 3-voter cluster (5 voters in the thorough tier) within the depth/deviation bounds is executed on the real role handlers; an oracle records which node sends AppendEntries or accepts writes in each term.",
    E1_NOTE, "DESIGN.md section 4 C01")

NOT_BUILT = "check not built yet in this session (work in progress; see DESIGN.md section 10 build order)"

manifest = {
    "version": 1,
    "setup_cmd": "cd /verif/mc && CARGO_NET_OFFLINE=true cargo build --release --offline",
    "hooks": {
        "guard": "cargo feature verif-hooks (d-engine-core, d-engine-server)",
        "enable": "path dependencies in /verif/mc/Cargo.toml enable features = [\"verif-hooks\"]; every ./check run rebuilds incrementally from /repo's working tree",
        "baseline_off_cmd": "cd /repo && cargo nextest run --workspace --no-fail-fast --tool-config-file pb:/w/lib/nextest.toml --profile pb --test-threads 8 --offline",
        "source_commits": [],
        "add_only": True,
    },
    "engines": [],
    "checks": [],
    "not_applicable": [],
    "notes": "Exit codes of every command: 0 held / only KNOWN-FINDING lines, 1 VIOLATION, 2 machinery error (never a verdict). All checks rebuild from /repo's working tree through ./check.",
}
hooks_file = os.path.join(ROOT, "hook_commits.txt")
if os.path.exists(hooks_file):
    manifest["hooks"]["source_commits"] = [l.split()[0] for l in open(hooks_file) if l.strip()]
engines = {}
for pid in ids:
    if pid in CHECKS:
        c = CHECKS[pid]
        manifest["checks"].append({
            "property_id": pid,
            "quick_cmd": f"./check {pid} --tier quick",
            "thorough_cmd": f"./check {pid} --tier thorough",
            "evidence_file": f"/verif/evidence/{pid}.json",
            "replay_cmd_template": f"./check {pid} --replay {{path}}",
            "engine": c["engine"],
            "level_claimed": {"category": c["category"], "text": c["text"], "design_ref": c["ref"]},
            "level_note": c["note"],
            "technique": c["technique"],
        })
        engines.setdefault(c["engine"], []).append(pid)
    else:
        manifest["not_applicable"].append({"property_id": pid, "reason": NOT_BUILT})
KINDS = {
    "clustermc": "E1 explicit-state exploration of a simulated cluster of real Raft nodes",
    "logmc": "E2 exhaustive operation-sequence / input-grid enumeration on BufferedRaftLog and replication arithmetic",
    "storemc": "E3 operation-sequence and crash-point enumeration on File/RocksDB log+meta stores",
    "smmc": "E4 operation-sequence, crash-point and schedule enumeration on File/RocksDB state machines",
    "apimc": "E5 input-grid and action-sequence enumeration at node/handler level",
}
for e, ps in engines.items():
    manifest["engines"].append({"name": e, "path": f"/verif/mc/src/bin/{e}.rs", "serves_properties": ps, "kind_free_text": KINDS.get(e, "")})
json.dump(manifest, open(os.path.join(ROOT, "MANIFEST.json"), "w"), indent=1)
json.dump({pid: c["engine"] for pid, c in CHECKS.items()}, open(os.path.join(ROOT, "engines.json"), "w"), indent=1)
print("checks:", len(manifest["checks"]), "not_applicable:", len(manifest["not_applicable"]))
