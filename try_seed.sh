#!/bin/bash
# usage: try_seed.sh <patch.diff> <tier> <Cxx> [<Cxx>...] : applies a seeded change to /repo, runs the checks, reverts
patch="$1"; tier="$2"; shift 2
cd /repo || exit 2
if ! git diff --quiet; then echo "repo not clean"; exit 2; fi
git apply "$patch" || { echo "PATCH DOES NOT APPLY"; exit 3; }
cd /verif
for p in "$@"; do
  s=$(date +%s)
  out=$(./check $p --tier $tier 2>&1); code=$?
  echo "$p exit=$code $(( $(date +%s)-s ))s $(echo "$out" | grep -E '^(VIOLATION|MACHINERY)' | head -2 | cut -c1-160 | tr '\n' ' ')"
  echo "$out" | grep -E "^  " | head -2 | cut -c1-220
done
git -C /repo checkout -- .
