#!/bin/bash
# usage: confirm_seed.sh <worktree> <ID> <demo test filter> [extra nextest/cargo args, e.g. --features ...]
# Confirms a seeded change in a scratch worktree: demo fails with the change, passes without, existing suite passes with it.
wt="$1"; id="$2"; filter="$3"; extra="${4:-}"
out="$wt/out/$id"; log="$out/confirm.log"
cd "$wt" || exit 2
# rustc 1.89 incremental compilation ICEs when patches are toggled back and forth
export CARGO_INCREMENTAL=0; rm -rf "$wt/target/debug/incremental"
git checkout -q -- . ; git clean -qfd -e out -e target
NX="cargo nextest run --workspace --no-fail-fast --tool-config-file pb:/w/lib/nextest.toml --profile pb --test-threads 8 --offline $extra"
{
echo "== demo WITHOUT change"
git apply "$out/demo.diff" || echo "DEMO DOES NOT APPLY"
$NX -E "$filter" 2>&1 | grep -E "Summary|^\s+(PASS|FAIL)" | sort | uniq | head -20
echo "== demo WITH change"
git apply "$out/patch.diff" || echo "PATCH DOES NOT APPLY"
$NX -E "$filter" 2>&1 | grep -E "Summary|^\s+(PASS|FAIL)" | sort | uniq | head -20
echo "== existing suite WITH change (demo removed)"
git apply -R "$out/demo.diff"
$NX 2>&1 | grep -E "Summary|^\s+(FAIL|TIMEOUT)" | sort | uniq > "$out/confirm_suite.txt"
cat "$out/confirm_suite.txt" | head -40
# re-run failures in isolation (load flakes)
fails=$(grep -E "^\s+(FAIL|TIMEOUT)" "$out/confirm_suite.txt" | sed -E 's/.*\) +[^ ]+ +//' | grep -v "permission_denied" | sort -u)
for t in $fails; do
  echo "-- rerun $t"
  for attempt in 1 2 3 4; do
    r=$($NX -E "test(=$t)" 2>&1 | grep -E "Summary" | head -1)
    echo "$r"
    echo "$r" | grep -q " 1 passed" && break
  done
done
git checkout -q -- . ; git clean -qfd -e out -e target
echo "== done"
} > "$log" 2>&1
