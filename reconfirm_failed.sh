#!/bin/bash
# usage: reconfirm_failed.sh <worktree> <ID> : re-runs (with the change applied) the tests whose isolated re-run still failed in confirm.log
wt="$1"; id="$2"; out="$wt/out/$id"; log="$out/confirm.log"
cd "$wt" || exit 2
# rustc 1.89 incremental compilation ICEs when patches are toggled back and forth
export CARGO_INCREMENTAL=0; rm -rf "$wt/target/debug/incremental"
NX="cargo nextest run --workspace --no-fail-fast --tool-config-file pb:/w/lib/nextest.toml --profile pb --test-threads 8 --offline"
fails=$(awk '/^-- rerun /{t=$3} /Summary/ && /0 passed/ && t!=""{print t} /Summary/ && / 1 passed/{t=""}' "$log" | sort -u)
# keep only those whose LAST summary was a failure
still=""
for t in $fails; do
  last=$(awk -v T="$t" '/^-- rerun /{cur=$3} /Summary/ && cur==T{l=$0} END{print l}' "$log")
  echo "$last" | grep -q " 1 passed" || still="$still $t"
done
[ -z "$still" ] && { echo "nothing left to re-run for $id"; exit 0; }
git checkout -q -- . ; git clean -qfd -e out -e target
git apply "$out/patch.diff" || exit 3
{
echo "== second round of isolated re-runs (quieter machine)"
for t in $still; do
  echo "-- rerun $t"
  for attempt in 1 2 3 4; do
    r=$($NX -E "test(=$t)" 2>&1 | grep -E "Summary" | head -1)
    echo "$r"
    echo "$r" | grep -q " 1 passed" && break
  done
done
echo "== done"
} >> "$log" 2>&1
git checkout -q -- . ; git clean -qfd -e out -e target
