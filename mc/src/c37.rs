//! C37: client writes reach the state machine exactly as submitted.
//!
//! Grid of operations pushed as `ClientCmd::Propose` into a real single-voter leader; they go
//! through the real chain `write_op_to_proto` -> `client_command_to_entry_payloads` -> log ->
//! commit handler -> `decode_entries` and are observed at the state machine's `apply_chunk`.

use std::io::Write;
use std::time::Instant;

use bytes::Bytes;
use d_engine_core::ClientCmd;
use d_engine_core::ClientWriteRequest;
use d_engine_core::Command;
use d_engine_core::MaybeCloneOneshot;
use d_engine_core::RaftOneshot;
use d_engine_core::WriteOperation;
use serde_json::json;

use crate::evidence::Evidence;
use crate::gridkit::Findings;
use crate::runner;
use crate::simkit::cluster::Cluster;
use crate::simkit::cluster::Event;
use crate::simkit::cluster::Opts;

fn expected_command(op: &WriteOperation) -> Command {
    match op {
        WriteOperation::Insert { key, value, ttl_secs } => {
            Command::Insert { key: key.clone(), value: value.clone(), ttl_secs: *ttl_secs }
        }
        WriteOperation::Delete { key } => Command::Delete { key: key.clone() },
        WriteOperation::CompareAndSwap { key, expected, new_value } => Command::CompareAndSwap {
            key: key.clone(),
            expected: expected.clone(),
            value: new_value.clone(),
        },
    }
}

fn byte_domain() -> Vec<Vec<u8>> {
    vec![vec![], b"k".to_vec(), vec![0x00], vec![0xFF, 0xFF, 0xFF], vec![0x41; 300]]
}

fn class_of(op: &WriteOperation, got: Option<&Command>) -> String {
    let kind = match op {
        WriteOperation::Insert { ttl_secs: Some(0), .. } => "put with TTL 0",
        WriteOperation::Insert { ttl_secs: Some(_), .. } => "put with TTL",
        WriteOperation::Insert { .. } => "put",
        WriteOperation::Delete { .. } => "delete",
        WriteOperation::CompareAndSwap { expected: None, .. } => "CAS expecting absent",
        WriteOperation::CompareAndSwap { expected: Some(e), .. } if e.is_empty() => {
            "CAS expecting the empty value"
        }
        WriteOperation::CompareAndSwap { .. } => "CAS",
    };
    match got {
        None => format!("{kind}: no command reached the state machine"),
        Some(_) => format!("{kind}: the state machine received a different command than was submitted"),
    }
}

pub fn run(tier: &str, out: &mut std::fs::File) -> i32 {
    let t0 = Instant::now();
    let dom = byte_domain();
    let ttls: Vec<Option<u64>> = vec![None, Some(0), Some(1), Some(u64::MAX)];
    let exps: Vec<Option<Vec<u8>>> = vec![None, Some(vec![]), Some(b"x".to_vec()), Some(vec![0x00])];
    let mut ops: Vec<WriteOperation> = vec![];
    for k in &dom {
        ops.push(WriteOperation::Delete { key: Bytes::from(k.clone()) });
        for v in &dom {
            for t in &ttls {
                ops.push(WriteOperation::Insert {
                    key: Bytes::from(k.clone()),
                    value: Bytes::from(v.clone()),
                    ttl_secs: *t,
                });
            }
            for e in &exps {
                ops.push(WriteOperation::CompareAndSwap {
                    key: Bytes::from(k.clone()),
                    expected: e.clone().map(Bytes::from),
                    new_value: Bytes::from(v.clone()),
                });
            }
        }
    }
    let mut findings = Findings::new("C37");
    let mut checked = 0u64;
    let mut samples = vec![];
    let scratch = runner::scratch_root().join("c37");
    let _ = std::fs::create_dir_all(&scratch);
    let rt = runner::paused_rt(0);
    let res: Result<(), String> = rt.block_on(async {
        let mut opts = Opts::default();
        opts.voters = vec![1];
        let mut c = Cluster::new(opts, scratch.clone()).await?;
        c.apply(&Event::Timeout(1)).await?;
        c.apply(&Event::Timeout(1)).await?;
        let v = c.node(1).ok_or("node 1 missing")?.view().await;
        if v.role != crate::simkit::cluster::RoleKind::Leader {
            return Err("single voter did not become leader".into());
        }
        // batches of 1 and of 3 (the pair/batch path of the propose buffer)
        let mut i = 0usize;
        let mut batch_sizes = [1usize, 3, 2].iter().cycle();
        while i < ops.len() {
            let n = (*batch_sizes.next().unwrap()).min(ops.len() - i);
            let before = c.observers[&1].applies.lock().unwrap().iter().map(|r| r.entries.len()).sum::<usize>();
            let cmd_tx = c.node(1).unwrap().cmd_tx.clone();
            let mut rxs = vec![];
            for op in &ops[i..i + n] {
                let (tx, rx) = MaybeCloneOneshot::new();
                cmd_tx
                    .try_send(ClientCmd::Propose(
                        ClientWriteRequest { client_id: 7, command: Some(op.clone()) },
                        tx,
                    ))
                    .map_err(|e| e.to_string())?;
                rxs.push(rx);
            }
            c.settle_node(1).await?;
            let applied: Vec<Command> = {
                let recs = c.observers[&1].applies.lock().unwrap();
                recs.iter()
                    .flat_map(|r| r.entries.iter().map(|e| e.command.clone()))
                    .filter(|c| !matches!(c, Command::Noop))
                    .collect()
            };
            let _ = before;
            // commands (noops excluded) arrive in submission order: the k-th submitted op
            // corresponds to the k-th applied non-noop command
            for (j, op) in ops[i..i + n].iter().enumerate() {
                let want = expected_command(op);
                let got = applied.get(i + j);
                checked += 1;
                let case = json!({"submitted": format!("{op:?}"), "batch_size": n,
                                  "reached_state_machine": got.map(|g| format!("{g:?}"))});
                if samples.len() < 3 && j == 0 && i % 50 == 0 {
                    samples.push(case.clone());
                }
                if got != Some(&want) {
                    findings.report(&class_of(op, got), case);
                }
            }
            drop(rxs);
            i += n;
        }
        Ok(())
    });
    if let Err(e) = res {
        let _ = writeln!(out, "MACHINERY-ERROR property=C37 {e}");
        runner::cleanup_scratch();
        return 2;
    }
    let exit = findings.finish(out);
    let mut cov = serde_json::Map::new();
    cov.insert("states".into(), json!(ops.len()));
    cov.insert("transitions".into(), json!(checked.max(1)));
    cov.insert("traces_validated_against_impl".into(), json!(checked));
    cov.insert("samples".into(), json!(samples));
    cov.insert("exhaustive".into(), json!(true));
    cov.insert("grid".into(), json!({"keys_and_values": ["", "k", "0x00", "0xFF 0xFF 0xFF", "300 x 'A'"],
        "ttl": ["none", 0, 1, "u64::MAX"], "expected": ["absent", "''", "x", "0x00"],
        "batching": "requests submitted in batches of 1, 3 and 2 before the leader's turn"}));
    cov.insert("distinct_disagreement_classes".into(), json!(findings.classes()));
    cov.insert("known_findings_hit".into(), json!(findings.known_hit()));
    cov.insert("explanation".into(), json!("Every operation of the grid is submitted as ClientCmd::Propose to a real single-voter leader (LeaderState::push_client_cmd -> write_op_to_proto -> client_command_to_entry_payloads -> BufferedRaftLog -> commit handler -> decode_entries) and the command observed at the state machine's apply_chunk is compared field by field with the submitted operation."));
    Evidence {
        property: "C37".into(),
        tier: tier.into(),
        level: "model_checking".into(),
        coverage: cov,
        assumptions: vec!["embedded path (ClientCmd); the gRPC proto conversion of the client crate is covered by the gRPC read/write path checks".into()],
        wall_s: t0.elapsed().as_secs_f64(),
        violations: findings.new_violations() as i64,
    }
    .write();
    runner::cleanup_scratch();
    exit
}
