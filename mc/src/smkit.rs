//! Helpers for the state-machine engines: opening the real File / RocksDB state machines with a
//! real `TtlLease`, command alphabets, and the reference semantics.

use std::path::Path;
use std::sync::Arc;

use bytes::Bytes;
use d_engine_core::ApplyEntry;
use d_engine_core::Command;
use d_engine_core::StateMachine;
use d_engine_core::config::LeaseConfig;
use d_engine_server::FileStateMachine;
use d_engine_server::RocksDBStateMachine;
use d_engine_server::storage::TtlLease;

pub use crate::simkit::sm::RefKv;

#[derive(Clone, Copy, Debug, PartialEq, Eq, Hash, serde::Serialize, serde::Deserialize)]
pub enum Engine {
    File,
    Rocks,
}

impl Engine {
    pub fn name(&self) -> &'static str {
        match self {
            Engine::File => "file",
            Engine::Rocks => "rocksdb",
        }
    }
}

pub struct Opened {
    pub sm: Arc<dyn StateMachine>,
    pub lease: Arc<TtlLease>,
}

pub async fn open(engine: Engine, dir: &Path) -> Result<Opened, String> {
    let lease = Arc::new(TtlLease::new(LeaseConfig::default()));
    let sm: Arc<dyn StateMachine> = match engine {
        Engine::File => {
            let mut sm = FileStateMachine::new(dir.to_path_buf()).await.map_err(|e| format!("{e:?}"))?;
            sm.set_lease(lease.clone());
            Arc::new(sm)
        }
        Engine::Rocks => {
            let mut sm = RocksDBStateMachine::new(dir).map_err(|e| format!("{e:?}"))?;
            sm.set_lease(lease.clone());
            Arc::new(sm)
        }
    };
    sm.start().await.map_err(|e| format!("{e:?}"))?;
    Ok(Opened { sm, lease })
}

pub fn b(s: &[u8]) -> Bytes {
    Bytes::copy_from_slice(s)
}

/// Command alphabet over keys {a,b}, values {"",x,y}.
pub fn alphabet(with_empty_value: bool) -> Vec<Command> {
    let keys: [&[u8]; 2] = [b"a", b"b"];
    let vals: Vec<&[u8]> = if with_empty_value { vec![b"", b"x", b"y"] } else { vec![b"x", b"y"] };
    let mut v = vec![];
    for k in keys {
        for val in &vals {
            v.push(Command::Insert { key: b(k), value: b(val), ttl_secs: None });
        }
        v.push(Command::Delete { key: b(k) });
        let mut exps: Vec<Option<&[u8]>> = vec![None];
        exps.extend(vals.iter().map(|x| Some(*x)));
        for e in exps {
            for nv in [b"x" as &[u8], b"y"] {
                v.push(Command::CompareAndSwap { key: b(k), expected: e.map(b), value: b(nv) });
            }
        }
    }
    v
}

pub fn entries(cmds: &[Command], start_index: u64, term: u64) -> Vec<ApplyEntry> {
    cmds.iter()
        .enumerate()
        .map(|(i, c)| ApplyEntry { index: start_index + i as u64, term, command: c.clone() })
        .collect()
}

pub fn describe(c: &Command) -> String {
    let s = |x: &Bytes| -> String {
        if x.iter().all(|c| c.is_ascii_graphic()) {
            format!("'{}'", String::from_utf8_lossy(x))
        } else {
            format!("{:?}", x.to_vec())
        }
    };
    match c {
        Command::Noop => "noop".into(),
        Command::Insert { key, value, ttl_secs } => match ttl_secs {
            Some(t) => format!("put({},{},ttl={})", s(key), s(value), t),
            None => format!("put({},{})", s(key), s(value)),
        },
        Command::Delete { key } => format!("del({})", s(key)),
        Command::CompareAndSwap { key, expected, value } => format!(
            "cas({},{},{})",
            s(key),
            expected.as_ref().map(&s).unwrap_or_else(|| "absent".into()),
            s(value)
        ),
    }
}

/// Every possible state over keys {a,b} x values {absent, "", x, y} (or without "")
pub fn all_states(with_empty_value: bool) -> Vec<Vec<(Bytes, Bytes)>> {
    let vals: Vec<Option<&[u8]>> = if with_empty_value {
        vec![None, Some(b""), Some(b"x"), Some(b"y")]
    } else {
        vec![None, Some(b"x"), Some(b"y")]
    };
    let mut out = vec![];
    for va in &vals {
        for vb in &vals {
            let mut st = vec![];
            if let Some(v) = va {
                st.push((b(b"a"), b(v)));
            }
            if let Some(v) = vb {
                st.push((b(b"b"), b(v)));
            }
            out.push(st);
        }
    }
    out
}

pub fn kv_of(r: &RefKv) -> Vec<(Vec<u8>, Vec<u8>)> {
    r.kv.iter().map(|(k, v)| (k.to_vec(), v.to_vec())).collect()
}

/// The proto log entry a leader would write for `cmd` (what `decode_entries` turns back into it).
pub fn cmd_to_entry(cmd: &Command, index: u64, term: u64) -> d_engine_proto::common::Entry {
    use d_engine_proto::client::WriteCommand;
    use d_engine_proto::client::write_command::CompareAndSwap;
    use d_engine_proto::client::write_command::Delete;
    use d_engine_proto::client::write_command::Insert;
    use d_engine_proto::client::write_command::Operation;
    use d_engine_proto::common::Entry;
    use d_engine_proto::common::EntryPayload;
    use prost::Message;
    let payload = match cmd {
        Command::Noop => EntryPayload::noop(),
        Command::Insert { key, value, ttl_secs } => EntryPayload::command(Bytes::from(
            WriteCommand {
                operation: Some(Operation::Insert(Insert { key: key.clone(), value: value.clone(), ttl_secs: ttl_secs.unwrap_or(0) })),
            }
            .encode_to_vec(),
        )),
        Command::Delete { key } => EntryPayload::command(Bytes::from(
            WriteCommand { operation: Some(Operation::Delete(Delete { key: key.clone() })) }.encode_to_vec(),
        )),
        Command::CompareAndSwap { key, expected, value } => EntryPayload::command(Bytes::from(
            WriteCommand {
                operation: Some(Operation::CompareAndSwap(CompareAndSwap {
                    key: key.clone(),
                    expected_value: expected.clone(),
                    new_value: value.clone(),
                })),
            }
            .encode_to_vec(),
        )),
    };
    Entry { index, term, payload: Some(payload) }
}
