pub mod cluster;
pub mod cluster_ext;
pub mod menu;
pub mod net;
pub mod node;
pub mod oracle;
pub mod sm;
pub mod store;
