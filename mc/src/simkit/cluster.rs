//! A cluster of simulated nodes (real Raft code) driven one explorer event at a time.

use std::collections::BTreeMap;
use std::collections::BTreeSet;
use std::collections::VecDeque;
use std::future::Future;
use std::hash::Hash;
use std::hash::Hasher;
use std::pin::Pin;
use std::sync::Arc;
use std::sync::atomic::Ordering;
use std::time::Duration;

use bytes::Bytes;
use d_engine_core::ClientCmd;
use d_engine_core::ClientReadRequest;
use d_engine_core::ClientResponse;
use d_engine_core::ClientWriteRequest;
use d_engine_core::FlushPolicy;
use d_engine_core::InboundEvent;
use d_engine_core::MaybeCloneOneshot;
use d_engine_core::MaybeCloneOneshotReceiver;
use d_engine_core::Membership;
use d_engine_core::RaftLog;
use d_engine_core::RaftNodeConfig;
use d_engine_core::RaftOneshot;
use d_engine_core::RaftRole;
use d_engine_core::ReadConsistencyPolicy;
use d_engine_core::StateMachine;
use d_engine_core::VoteResult;
use d_engine_core::WriteOperation;
use d_engine_proto::common::Entry;
use d_engine_proto::common::NodeRole;
use d_engine_proto::common::NodeStatus;
use d_engine_proto::server::cluster::NodeMeta;
use d_engine_proto::server::election::VoteResponse;
use d_engine_proto::server::replication::AppendEntriesRequest;
use d_engine_proto::server::replication::AppendEntriesResponse;
use futures::FutureExt;
use prost::Message;
use serde::Deserialize;
use serde::Serialize;

use super::net::Net;
use super::node::CrashMode;
use super::node::NodeImage;
use super::node::SimNode;
use super::node::assemble;
use super::sm::Observer;

pub type Res<T> = std::result::Result<T, String>;

// ------------------------------------------------------------------------------------------
// Events
// ------------------------------------------------------------------------------------------

#[derive(Clone, Copy, Debug, PartialEq, Eq, Hash, PartialOrd, Ord, Serialize, Deserialize)]
pub enum VoteAns {
    /// request delivered, response returned
    Deliver,
    /// request delivered (peer state changes), response lost
    LoseResp,
    /// request lost
    Lose,
}

#[derive(Clone, Debug, PartialEq, Eq, Hash, Serialize, Deserialize)]
pub enum Op {
    Put(String, String),
    PutTtl(String, String, u64),
    Del(String),
    Cas(String, Option<String>, String),
}

#[derive(Clone, Copy, Debug, PartialEq, Eq, Hash, PartialOrd, Ord, Serialize, Deserialize)]
pub struct LinkId {
    pub from: u32,
    pub to: u32,
    pub generation: u32,
}

#[derive(Clone, Copy, Debug, PartialEq, Eq, Hash, Serialize, Deserialize)]
pub enum RPolicy {
    Default,
    Linearizable,
    Lease,
    Eventual,
}

#[derive(Clone, Debug, PartialEq, Eq, Hash, Serialize, Deserialize)]
pub enum Event {
    /// election timer of a follower/candidate fires
    Timeout(u32),
    /// answer for the next unanswered voter of the election in flight
    Vote(u32, VoteAns),
    /// replication timer of a leader fires
    Heartbeat(u32),
    /// the node's timer becomes due while it is busy with its next turn: it ticks right after
    /// that turn, before the events that turn queued for itself (biased select: tick first)
    TimerAfterNextTurn(u32),
    /// deliver `k` head requests of a link to the follower before it takes its turn
    Deliver(LinkId, u8),
    /// deliver the head response of a link to the leader
    DeliverResp(LinkId),
    /// the head responses of TWO links reach the leader before it takes its next turn
    DeliverResp2(LinkId, LinkId),
    /// the stream breaks: responses in flight are lost, the leader's worker reconnects
    Break(LinkId),
    /// drop the head request of a (broken) link
    DropReq(LinkId),
    ClientWrite(u32, Op),
    ClientWritePair(u32, Op, Op),
    ClientRead(u32, String, RPolicy),
    /// a write and a linearizable read queued before the same loop turn (one drain cycle)
    ClientMixed(u32, Op, String),
    Crash(u32, CrashMode),
    Stop(u32),
    Restart(u32),
    /// let one gated apply_chunk proceed on node n
    ApplyRelease(u32),
    /// advance the virtual clock
    Advance(u64),
    /// the next apply_chunk on node n fails (state machine error -> fatal)
    FailApply(u32),
    /// end of a recovery closure: evaluate "a leader exists, the probe write is acknowledged,
    /// every live voter has applied everything committed" (a pure check, changes nothing)
    AssertRecovered(u32),
    /// timed mode: virtual time jumps to the earliest timer deadline of a live node and that
    /// node takes its turn (its tick fires)
    Tick,
    /// force snapshot creation on node n (InternalEvent::CreateSnapshotEvent)
    Snapshot(u32),
    /// learner `n` (not yet part of the cluster) starts and joins via the current leader
    Join(u32),
    /// resolve a pending join / snapshot push (index into pending list)
    JoinDeliver(u32),
    PushDeliver(u32, u32),
    PushFail(u32, u32),
}

// ------------------------------------------------------------------------------------------
// Options
// ------------------------------------------------------------------------------------------

#[derive(Clone, Debug, Serialize, Deserialize)]
pub struct Opts {
    /// ids of initial voters
    pub voters: Vec<u32>,
    /// ids of initial learners (part of initial_cluster with role Learner)
    pub learners: Vec<u32>,
    /// ids of nodes that may join later (own initial_cluster = cluster + self as learner)
    pub joiners: Vec<u32>,
    pub cap: u64,
    pub max_batch: usize,
    pub max_merge: usize,
    pub gated_sm: Vec<u32>,
    pub timed: bool,
    pub election_min_ms: u64,
    pub heartbeat_ms: u64,
    pub lease_ms: u64,
    pub raft_timeout_ms: u64,
    pub noop_timeout_ms: u64,
    pub snapshot_enable: bool,
    pub retained: u64,
    pub default_policy: RPolicy,
    pub allow_override: bool,
    pub max_pending_writes: usize,
    pub catchup_threshold: u64,
    /// timed mode: extra election timeout of the i-th node (by ascending id), so that the order
    /// in which followers time out is decided by the configuration of the run
    #[serde(default)]
    pub election_offsets_ms: Vec<u64>,
}

impl Default for Opts {
    fn default() -> Self {
        Opts {
            voters: vec![1, 2, 3],
            learners: vec![],
            joiners: vec![],
            cap: 100,
            max_batch: 100,
            max_merge: 1000,
            gated_sm: vec![],
            timed: false,
            election_min_ms: 3_600_000,
            heartbeat_ms: 3_600_000,
            lease_ms: 1_800_000,
            raft_timeout_ms: 3_600_000,
            noop_timeout_ms: 3_600_000,
            snapshot_enable: false,
            retained: 1,
            default_policy: RPolicy::Linearizable,
            allow_override: true,
            max_pending_writes: 10_000,
            catchup_threshold: 1,
            election_offsets_ms: vec![],
        }
    }
}

pub fn node_meta(id: u32, learner: bool) -> NodeMeta {
    NodeMeta {
        id,
        address: format!("127.0.0.1:{}", 9000 + id),
        role: if learner { NodeRole::Learner as i32 } else { NodeRole::Follower as i32 },
        status: if learner { NodeStatus::Promotable as i32 } else { NodeStatus::Active as i32 },
    }
}

fn to_policy(p: RPolicy) -> Option<ReadConsistencyPolicy> {
    match p {
        RPolicy::Default => None,
        RPolicy::Linearizable => Some(ReadConsistencyPolicy::LinearizableRead),
        RPolicy::Lease => Some(ReadConsistencyPolicy::LeaseRead),
        RPolicy::Eventual => Some(ReadConsistencyPolicy::EventualConsistency),
    }
}

impl Opts {
    pub fn node_config(&self, scratch: &std::path::Path, id: u32) -> RaftNodeConfig {
        let mut c = RaftNodeConfig::default();
        c.cluster.node_id = id;
        c.cluster.db_root_dir = scratch.join(format!("db{id}"));
        c.cluster.log_dir = scratch.join(format!("log{id}"));
        let mut all: Vec<u32> = self.voters.iter().chain(self.learners.iter()).chain(self.joiners.iter()).copied().collect();
        all.sort_unstable();
        let pos = all.iter().position(|x| *x == id).unwrap_or(0);
        let off = self.election_offsets_ms.get(pos).copied().unwrap_or(0);
        c.raft.election.election_timeout_min = self.election_min_ms + off;
        c.raft.election.election_timeout_max = self.election_min_ms + off + 1;
        c.raft.replication.rpc_append_entries_clock_in_ms = self.heartbeat_ms;
        c.raft.replication.append_entries_max_entries_per_replication = self.cap;
        c.raft.batching.max_batch_size = self.max_batch;
        c.raft.batching.max_merge_entries = self.max_merge;
        c.raft.persistence.flush_policy =
            FlushPolicy::Batch { idle_flush_interval_ms: 360_000_000 };
        c.raft.general_raft_timeout_duration_in_ms = self.raft_timeout_ms;
        c.raft.membership.verify_leadership_persistent_timeout =
            Duration::from_millis(self.noop_timeout_ms);
        c.raft.membership.promotion.stale_learner_threshold = Duration::from_secs(360_000);
        c.raft.learner_check_throttle_ms = 0;
        c.raft.learner_catchup_threshold = self.catchup_threshold;
        c.raft.read_consistency.lease_duration_ms = self.lease_ms;
        c.raft.read_consistency.allow_client_override = self.allow_override;
        c.raft.read_consistency.default_policy = match self.default_policy {
            RPolicy::Lease => ReadConsistencyPolicy::LeaseRead,
            RPolicy::Eventual => ReadConsistencyPolicy::EventualConsistency,
            _ => ReadConsistencyPolicy::LinearizableRead,
        };
        c.raft.read_consistency.state_machine_sync_timeout_ms = self.raft_timeout_ms;
        c.raft.backpressure.max_pending_writes = self.max_pending_writes;
        c.raft.snapshot.enable = self.snapshot_enable;
        c.raft.snapshot.max_log_entries_before_snapshot = 1_000_000;
        c.raft.snapshot.retained_log_entries = self.retained;
        c.raft.snapshot.snapshots_dir = scratch.join(format!("snap{id}"));
        c.raft.snapshot.chunk_size = 64;
        c.raft.metrics.enable_backpressure = false;
        c.raft.metrics.enable_batch = false;
        c
    }

    pub fn initial_cluster_for(&self, id: u32) -> Vec<NodeMeta> {
        let mut v: Vec<NodeMeta> = self.voters.iter().map(|i| node_meta(*i, false)).collect();
        v.extend(self.learners.iter().map(|i| node_meta(*i, true)));
        if self.joiners.contains(&id) {
            v.push(node_meta(id, true));
        }
        v
    }
}

// ------------------------------------------------------------------------------------------
// Views (read-only projections used by fingerprints and oracles)
// ------------------------------------------------------------------------------------------

#[derive(Clone, Copy, Debug, PartialEq, Eq, Hash, PartialOrd, Ord, Serialize, Deserialize)]
pub enum RoleKind {
    Follower,
    Candidate,
    Leader,
    Learner,
}

#[derive(Clone, Debug, PartialEq, Eq, Hash)]
pub struct LogEnt {
    pub index: u64,
    pub term: u64,
    pub payload: u64,
}

#[derive(Clone, Debug, PartialEq, Eq, Hash)]
pub struct NodeView {
    pub id: u32,
    pub role: RoleKind,
    pub term: u64,
    pub voted_for: Option<(u32, u64, bool)>,
    pub commit: u64,
    pub leader_hint: Option<u32>,
    pub log: Vec<LogEnt>,
    pub first: u64,
    pub last: u64,
    pub durable: u64,
    pub last_log_id: Option<(u64, u64)>,
    pub applied: u64,
    pub smh_applied: u64,
    pub kv: Vec<(Vec<u8>, Vec<u8>)>,
    pub members: Vec<(u32, i32, i32)>,
    pub conf_version: u64,
    pub next_index: Vec<(u32, u64)>,
    pub match_index: Vec<(u32, u64)>,
    pub noop: Option<u64>,
    pub queues: Option<[usize; 7]>,
    pub notified_leader: Option<(u32, u64)>,
    pub lease_valid: bool,
    /// remaining lease validity in 100 ms buckets (timed mode; 0 otherwise)
    pub lease_left: u64,
    /// time until this node's timer fires, in 100 ms buckets (timed mode; 0 otherwise)
    pub deadline_left: u64,
    pub fatal: bool,
    /// membership-change entries in the log: (index, description)
    pub configs: Vec<(u64, String)>,
    /// last_included index of the snapshot the node holds (0 = none)
    pub snapshot_li: u64,
}

pub fn config_of(e: &Entry) -> Option<String> {
    use d_engine_proto::common::entry_payload::Payload;
    use d_engine_proto::common::membership_change::Change;
    match e.payload.as_ref().and_then(|p| p.payload.as_ref()) {
        Some(Payload::Config(c)) => Some(match &c.change {
            Some(Change::AddNode(a)) => format!("AddNode({})", a.node_id),
            Some(Change::RemoveNode(r)) => format!("RemoveNode({})", r.node_id),
            Some(Change::Promote(p)) => format!("Promote({})", p.node_id),
            Some(Change::BatchPromote(b)) => {
                let mut ids = b.node_ids.clone();
                ids.sort_unstable();
                format!("BatchPromote({ids:?})")
            }
            Some(Change::BatchRemove(b)) => {
                let mut ids = b.node_ids.clone();
                ids.sort_unstable();
                format!("BatchRemove({ids:?})")
            }
            None => "EmptyChange".into(),
        }),
        _ => None,
    }
}

pub fn payload_hash(e: &Entry) -> u64 {
    let mut h = std::collections::hash_map::DefaultHasher::new();
    match &e.payload {
        Some(p) => p.encode_to_vec().hash(&mut h),
        None => 0u8.hash(&mut h),
    }
    h.finish()
}

pub fn entry_view(e: &Entry) -> LogEnt {
    LogEnt { index: e.index, term: e.term, payload: payload_hash(e) }
}

impl SimNode {
    pub fn role_kind(&self) -> RoleKind {
        match &self.raft.role {
            RaftRole::Follower(_) => RoleKind::Follower,
            RaftRole::Candidate(_) => RoleKind::Candidate,
            RaftRole::Leader(_) => RoleKind::Leader,
            RaftRole::Learner(_) => RoleKind::Learner,
        }
    }

    pub async fn view(&self) -> NodeView {
        let (shared, next_index, match_index, noop) = match &self.raft.role {
            RaftRole::Follower(s) => (&s.shared_state, vec![], vec![], None),
            RaftRole::Candidate(s) => (&s.shared_state, vec![], vec![], None),
            RaftRole::Learner(s) => (&s.shared_state, vec![], vec![], None),
            RaftRole::Leader(s) => {
                let mut n: Vec<(u32, u64)> = s.next_index.iter().map(|(a, b)| (*a, *b)).collect();
                n.sort_unstable();
                let mut m: Vec<(u32, u64)> =
                    s.verif_match_index().iter().map(|(a, b)| (*a, *b)).collect();
                m.sort_unstable();
                (&s.shared_state, n, m, s.noop_log_id)
            }
        };
        let log = &self.raft_log;
        let first = log.first_entry_id();
        let last = log.last_entry_id();
        let entries = if last > 0 {
            log.get_entries_range(first.min(1).max(0)..=last).unwrap_or_default()
        } else {
            vec![]
        };
        let mut members: Vec<(u32, i32, i32)> =
            self.membership.members().await.iter().map(|n| (n.id, n.role, n.status)).collect();
        members.sort_unstable();
        let kv: Vec<(Vec<u8>, Vec<u8>)> =
            self.sm.kv().into_iter().map(|(k, v)| (k.to_vec(), v.to_vec())).collect();
        use d_engine_core::StateMachineHandler;
        NodeView {
            id: self.id,
            role: self.role_kind(),
            term: shared.hard_state.current_term,
            voted_for: shared
                .hard_state
                .voted_for
                .map(|v| (v.voted_for_id, v.voted_for_term, v.committed)),
            commit: shared.commit_index,
            leader_hint: shared.current_leader(),
            log: entries.iter().map(entry_view).collect(),
            first,
            last,
            durable: log.durable_index(),
            last_log_id: log.last_log_id().map(|l| (l.index, l.term)),
            applied: self.sm.last_applied().index,
            smh_applied: self.smh.last_applied(),
            kv,
            members,
            conf_version: self.membership.get_cluster_conf_version().await,
            next_index,
            match_index,
            noop,
            queues: self.raft.role.verif_leader_queues(),
            notified_leader: self.leader_rx.borrow().as_ref().map(|l| (l.leader_id, l.term)),
            lease_valid: shared.lease.is_valid_for_leader(
                shared.hard_state.current_term,
                d_engine_core::now_ms(),
            ),
            lease_left: if self.timed {
                let (t, now) = (shared.hard_state.current_term, d_engine_core::now_ms());
                (0..=200u64).take_while(|k| shared.lease.is_valid_for_leader(t, now + k * 100)).count() as u64
            } else {
                0
            },
            deadline_left: if self.timed {
                self.raft.verif_next_deadline().saturating_duration_since(tokio::time::Instant::now()).as_millis() as u64 / 100
            } else {
                0
            },
            fatal: self.fatal,
            configs: entries.iter().filter_map(|e| config_of(e).map(|c| (e.index, c))).collect(),
            snapshot_li: self.sm.snapshot_metadata().and_then(|m| m.last_included).map(|l| l.index).unwrap_or(0),
        }
    }
}

// ------------------------------------------------------------------------------------------
// Cluster
// ------------------------------------------------------------------------------------------

pub enum Slot {
    Up(Box<SimNode>),
    /// blocked inside an election (its turn future owns it)
    Busy,
    Down(NodeImage),
    /// a joiner that has not been started yet
    Absent,
}

type TurnFut = Pin<Box<dyn Future<Output = (Box<SimNode>, std::result::Result<bool, String>)>>>;

pub struct Election {
    pub node: u32,
    pub fut: TurnFut,
    pub peers: Vec<u32>,
    pub answered: Vec<(u32, Option<VoteResponse>)>,
}

type JoinFut = Pin<Box<dyn Future<Output = (Box<SimNode>, std::result::Result<(), String>)>>>;

/// A learner blocked in `Raft::join_cluster()` (Node::run_as_learner does this before the loop).
pub struct Joining {
    pub node: u32,
    pub fut: JoinFut,
    pub leader: u32,
    pub reply: Option<tokio::sync::oneshot::Sender<d_engine_core::Result<d_engine_proto::server::cluster::JoinResponse>>>,
    pub rx: Option<
        MaybeCloneOneshotReceiver<
            std::result::Result<d_engine_proto::server::cluster::JoinResponse, tonic::Status>,
        >,
    >,
}

pub struct Awaiting {
    pub link: LinkId,
    pub rx: MaybeCloneOneshotReceiver<std::result::Result<AppendEntriesResponse, tonic::Status>>,
}

#[derive(Clone, Debug, PartialEq, Eq, Hash, Serialize, Deserialize)]
pub enum ClientOutcome {
    Pending,
    WriteOk(bool),
    ReadOk(Option<String>),
    /// error code / status text (normalised)
    Err(String),
    Closed,
}

pub struct ClientReq {
    pub id: usize,
    pub node: u32,
    pub write: Option<Op>,
    pub read: Option<(String, RPolicy)>,
    pub rx: Option<MaybeCloneOneshotReceiver<std::result::Result<ClientResponse, tonic::Status>>>,
    pub outcome: ClientOutcome,
    /// every (key, value) entry of a successful read response, in response order
    pub read_entries: Vec<(Vec<u8>, Vec<u8>)>,
    pub invoked_at_event: usize,
    pub resolved_at_event: Option<usize>,
    pub invoked_ms: u64,
    pub resolved_ms: Option<u64>,
    /// role of the node when the request was handed to it
    pub role_at_invoke: RoleKind,
    pub term_at_invoke: u64,
}

#[derive(Clone, Debug, Serialize, Deserialize)]
pub struct Violation {
    pub property: String,
    pub what: String,
}

/// A snapshot of node state taken after every single turn (for the oracles).
#[derive(Clone, Debug)]
pub struct Observation {
    pub event_no: usize,
    pub view: NodeView,
}

pub struct Cluster {
    pub opts: Opts,
    pub scratch: std::path::PathBuf,
    pub ids: Vec<u32>,
    pub slots: BTreeMap<u32, Slot>,
    pub incarnations: BTreeMap<u32, u32>,
    pub observers: BTreeMap<u32, Arc<Observer>>,
    pub net: Net,
    pub election: Option<Election>,
    pub joining: Vec<Joining>,
    /// outcome of every finished join attempt: (node, leader asked, success)
    pub join_results: Vec<(u32, u32, bool)>,
    pub awaiting: Vec<Awaiting>,
    pub clients: Vec<ClientReq>,
    pub clock_ms: u64,
    pub events_applied: usize,
    pub oracle: super::oracle::Oracle,
    /// links whose stream was broken by the harness (generation already superseded)
    pub broken: BTreeSet<LinkId>,
    pub last_views: BTreeMap<u32, NodeView>,
    pub history: Vec<Event>,
    /// nodes whose timer expires right after their next turn
    pub armed_timers: BTreeSet<u32>,
    /// membership view of a node at the moment it crashed / stopped (C28)
    pub membership_at_stop: BTreeMap<u32, Vec<(u32, i32, i32)>>,
    /// virtual time at which the leader last received a successful AppendEntries response of a
    /// follower: (leader, follower) -> ms
    pub last_ack_ms: BTreeMap<(u32, u32), u64>,
    pub t0: tokio::time::Instant,
    /// the path ran into a schedule the harness cannot represent (e.g. a voter whose own
    /// election timer is due while it is asked for its vote): not expanded, not a verdict
    pub stuck: Option<String>,
}

async fn quiesce() {
    // Under the paused clock this returns only once the runtime has no ready task.
    tokio::time::sleep(Duration::from_millis(1)).await;
}

fn op_to_write(op: &Op) -> WriteOperation {
    match op {
        Op::Put(k, v) => WriteOperation::Insert {
            key: Bytes::from(k.clone()),
            value: Bytes::from(v.clone()),
            ttl_secs: None,
        },
        Op::PutTtl(k, v, t) => WriteOperation::Insert {
            key: Bytes::from(k.clone()),
            value: Bytes::from(v.clone()),
            ttl_secs: Some(*t),
        },
        Op::Del(k) => WriteOperation::Delete { key: Bytes::from(k.clone()) },
        Op::Cas(k, e, v) => WriteOperation::CompareAndSwap {
            key: Bytes::from(k.clone()),
            expected: e.as_ref().map(|x| Bytes::from(x.clone())),
            new_value: Bytes::from(v.clone()),
        },
    }
}

impl Cluster {
    pub async fn new(opts: Opts, scratch: std::path::PathBuf) -> Res<Cluster> {
        let net = Net::new();
        let mut ids: Vec<u32> = opts.voters.clone();
        ids.extend(opts.learners.iter().copied());
        ids.sort_unstable();
        let mut c = Cluster {
            opts: opts.clone(),
            scratch,
            ids: ids.clone(),
            slots: BTreeMap::new(),
            incarnations: BTreeMap::new(),
            observers: BTreeMap::new(),
            net,
            election: None,
            joining: vec![],
            join_results: vec![],
            awaiting: vec![],
            clients: vec![],
            clock_ms: 0,
            events_applied: 0,
            oracle: super::oracle::Oracle::default(),
            broken: BTreeSet::new(),
            last_views: BTreeMap::new(),
            history: vec![],
            armed_timers: BTreeSet::new(),
            membership_at_stop: BTreeMap::new(),
            last_ack_ms: BTreeMap::new(),
            t0: tokio::time::Instant::now(),
            stuck: None,
        };
        d_engine_core::verif_clock::set(Some(0));
        // nothing of an earlier cluster on this thread may leak into this one
        let _ = d_engine_core::verif_take_leader_notifications();
        if opts.snapshot_enable {
            // snapshot archives are real files: nothing of an earlier history may be left over
            if let Ok(rd) = std::fs::read_dir(&c.scratch) {
                for e in rd.flatten() {
                    if e.file_name().to_string_lossy().starts_with("snap") {
                        let _ = std::fs::remove_dir_all(e.path());
                    }
                }
            }
        }
        for id in ids {
            c.observers.insert(id, Arc::new(Observer::default()));
            c.incarnations.insert(id, 0);
            c.start_node(id, NodeImage::default()).await?;
        }
        for id in opts.joiners.iter() {
            c.observers.insert(*id, Arc::new(Observer::default()));
            c.incarnations.insert(*id, 0);
            c.slots.insert(*id, Slot::Absent);
        }
        c.observe_all().await;
        Ok(c)
    }

    async fn start_node(&mut self, id: u32, image: NodeImage) -> Res<()> {
        let inc = {
            let e = self.incarnations.entry(id).or_insert(0);
            *e += 1;
            *e
        };
        let cfg = self.opts.node_config(&self.scratch, id);
        let node = assemble(
            id,
            inc,
            cfg,
            self.opts.initial_cluster_for(id),
            image,
            self.observers[&id].clone(),
            self.net.clone(),
        )
        .await;
        let mut node = node;
        node.timed = self.opts.timed;
        if self.opts.gated_sm.contains(&id) {
            node.sm.gated.store(true, Ordering::SeqCst);
        }
        self.oracle.on_start(id, inc, node.sm.last_applied().index);
        self.slots.insert(id, Slot::Up(Box::new(node)));
        Ok(())
    }

    pub fn node(&self, id: u32) -> Option<&SimNode> {
        match self.slots.get(&id) {
            Some(Slot::Up(n)) => Some(n),
            _ => None,
        }
    }

    fn take(&mut self, id: u32) -> Option<Box<SimNode>> {
        match self.slots.remove(&id) {
            Some(Slot::Up(n)) => {
                self.slots.insert(id, Slot::Busy);
                Some(n)
            }
            Some(other) => {
                self.slots.insert(id, other);
                None
            }
            None => None,
        }
    }

    /// Run turns of node `id` until it has nothing more to do.
    /// Returns Ok(false) if the node entered an election and is now blocked in it.
    async fn settle(&mut self, id: u32) -> Res<bool> {
        let mut guard = 0;
        loop {
            guard += 1;
            if guard > 500 {
                return Err(format!("node {id} does not settle (livelock?)"));
            }
            quiesce().await;
            let Some(mut node) = self.take(id) else { return Ok(true) };
            if node.fatal {
                self.slots.insert(id, Slot::Up(node));
                return Ok(true);
            }
            let mut fut: TurnFut = Box::pin(async move {
                let r = node.raft.verif_turn().await.map_err(|e| format!("{e:?}"));
                (node, r)
            });
            // poll until ready, or until it blocks in an election
            let mut spins = 0;
            let done = loop {
                match futures::poll!(fut.as_mut()) {
                    std::task::Poll::Ready(v) => break Some(v),
                    std::task::Poll::Pending => {
                        if self.net.0.lock().unwrap().pending_vote.is_some() {
                            break None;
                        }
                        spins += 1;
                        if spins > 200 {
                            return Err(format!("node {id}: turn blocked on an unknown await"));
                        }
                        quiesce().await;
                    }
                }
            };
            match done {
                Some((node, r)) => {
                    let mut node = node;
                    let progressed = match r {
                        Ok(p) => p,
                        Err(e) => {
                            // Raft::run would return this error (fatal): the node stops.
                            node.fatal = true;
                            self.oracle.note(format!("node {id} fatal: {e}"));
                            false
                        }
                    };
                    if progressed && self.armed_timers.remove(&id) {
                        node.raft.verif_expire_timer();
                    }
                    let fatal_now = node.fatal;
                    self.slots.insert(id, Slot::Up(node));
                    self.after_turn(id).await;
                    if fatal_now && self.opts.timed {
                        // Raft::run returned the error: Node::run ends and the process goes
                        // away - every channel of the node closes
                        if let Some(node) = self.take(id) {
                            let image = node.crash(CrashMode::Process);
                            self.slots.insert(id, Slot::Down(image));
                            self.on_node_gone(id);
                            quiesce().await;
                            self.collect_responses();
                            self.collect_clients();
                        }
                        return Ok(true);
                    }
                    if !progressed {
                        return Ok(true);
                    }
                }
                None => {
                    let pv = self.net.0.lock().unwrap().pending_vote.as_ref().map(|p| {
                        (p.candidate, p.peers.clone(), p.req)
                    });
                    let (cand, peers, req) = pv.unwrap();
                    if cand != id {
                        return Err("pending vote from another node".into());
                    }
                    self.oracle.on_vote_request(id, req.term);
                    self.election = Some(Election { node: id, fut, peers, answered: vec![] });
                    return Ok(false);
                }
            }
        }
    }

    pub fn refresh_directory(&mut self) {
        let dir: Vec<(u32, u64)> = self
            .slots
            .iter()
            .filter_map(|(id, s)| match s {
                Slot::Up(n) if n.role_kind() == RoleKind::Leader && !n.fatal => {
                    Some((*id, n.raft.current_term()))
                }
                _ => None,
            })
            .collect();
        self.net.0.lock().unwrap().leader_directory = dir;
    }

    /// Resolve join requests whose answer has arrived and let the joiner continue.
    pub async fn poll_joins(&mut self) -> Res<()> {
        let mut i = 0;
        while i < self.joining.len() {
            let outcome = match self.joining[i].rx.as_mut() {
                // the leader was not reachable: the RPC fails
                None => Some(Err(d_engine_core::NetworkError::TaskBackoffFailed("leader unreachable".into()).into())),
                Some(rx) => match rx.now_or_never() {
                    None => None,
                    Some(Ok(Ok(resp))) => Some(Ok(resp)),
                    Some(Ok(Err(status))) => Some(Err(d_engine_core::NetworkError::TonicStatusError(Box::new(status)).into())),
                    Some(Err(_)) => Some(Err(d_engine_core::NetworkError::TaskBackoffFailed("join response channel closed".into()).into())),
                },
            };
            let Some(result) = outcome else {
                i += 1;
                continue;
            };
            let mut j = self.joining.remove(i);
            let success = matches!(&result, Ok(r) if r.success);
            self.oracle.on_join_answer(j.node, j.leader, success);
            if let Some(reply) = j.reply.take() {
                let _ = reply.send(result);
            }
            let mut spins = 0;
            let (node, r) = loop {
                match futures::poll!(j.fut.as_mut()) {
                    std::task::Poll::Ready(v) => break v,
                    std::task::Poll::Pending => {
                        spins += 1;
                        if spins > 200 {
                            return Err("joiner does not finish after the join answer".into());
                        }
                        quiesce().await;
                    }
                }
            };
            self.join_results.push((j.node, j.leader, r.is_ok()));
            if r.is_ok() {
                self.slots.insert(j.node, Slot::Up(node));
                self.after_turn(j.node).await;
                self.settle(j.node).await?;
            } else {
                // Node::run returns the error: the process exits
                drop(node);
                self.slots.insert(j.node, Slot::Absent);
            }
        }
        Ok(())
    }

    pub async fn settle_node(&mut self, id: u32) -> Res<()> {
        self.settle(id).await.map(|_| ())
    }

    async fn after_turn(&mut self, id: u32) {
        quiesce().await;
        self.net.pump();
        self.collect_responses();
        self.collect_clients();
        if let Some(Slot::Up(n)) = self.slots.get(&id) {
            let v = n.view().await;
            let reqs: Vec<AppendEntriesRequest> = {
                let g = self.net.0.lock().unwrap();
                g.links
                    .iter()
                    .filter(|l| l.from == id)
                    .flat_map(|l| l.in_flight.iter().cloned())
                    .collect()
            };
            // every value the nodes published on their leader-change watches during this turn
            for (n, val) in d_engine_core::verif_take_leader_notifications() {
                self.oracle.on_notification(n, val);
            }
            self.oracle.observe(self.events_applied, &v, &reqs, &self.observers[&id]);
            if v.role == RoleKind::Leader {
                let now = self.clock_ms;
                self.oracle.leader_seen_ms.entry((v.id, v.term)).or_insert(now);
            }
            self.last_views.insert(id, v);
        }
    }

    async fn observe_all(&mut self) {
        let ids: Vec<u32> = self.slots.keys().copied().collect();
        for id in ids {
            if matches!(self.slots.get(&id), Some(Slot::Up(_))) {
                self.after_turn(id).await;
            }
        }
    }

    fn collect_responses(&mut self) {
        // FIFO per link, like the forwarder task of stream_append_entries
        let mut i = 0;
        let mut blocked: BTreeSet<LinkId> = BTreeSet::new();
        while i < self.awaiting.len() {
            let link = self.awaiting[i].link;
            if blocked.contains(&link) {
                i += 1;
                continue;
            }
            match (&mut self.awaiting[i].rx).now_or_never() {
                Some(res) => {
                    self.awaiting.remove(i);
                    let mut g = self.net.0.lock().unwrap();
                    if let Some(l) = g
                        .links
                        .iter_mut()
                        .find(|l| l.from == link.from && l.to == link.to && l.generation == link.generation)
                    {
                        match res {
                            Ok(Ok(resp)) => {
                                if !l.broken {
                                    l.responses.push_back(resp)
                                }
                            }
                            // closed channel / error status: the stream carries an error
                            _ => {
                                if !l.broken {
                                    let _ = l.resp_tx.send(Err(tonic::Status::internal(
                                        "Response channel closed",
                                    )));
                                    l.broken = true;
                                    l.responses.clear();
                                }
                            }
                        }
                    }
                }
                None => {
                    blocked.insert(link);
                    i += 1;
                }
            }
        }
    }

    fn collect_clients(&mut self) {
        let now = self.clock_ms;
        let evn = self.events_applied;
        for c in self.clients.iter_mut() {
            if let Some(rx) = c.rx.as_mut() {
                if let Some(res) = rx.now_or_never() {
                    c.rx = None;
                    c.resolved_at_event = Some(evn);
                    c.resolved_ms = Some(now);
                    c.outcome = match res {
                        Err(_) => ClientOutcome::Closed,
                        Ok(Err(status)) => {
                            ClientOutcome::Err(format!("{:?}:{}", status.code(), status.message()))
                        }
                        Ok(Ok(resp)) => {
                            use d_engine_core::ClientResponsePayload as P;
                            use d_engine_core::client::ErrorCode;
                            if resp.error != ErrorCode::Success {
                                ClientOutcome::Err(format!("{:?}", resp.error))
                            } else {
                                match resp.result {
                                    Some(P::Write(w)) => ClientOutcome::WriteOk(w.succeeded),
                                    Some(P::Read(r)) => {
                                        c.read_entries = r.entries.iter().map(|e| (e.key.to_vec(), e.value.to_vec())).collect();
                                        ClientOutcome::ReadOk(
                                            r.entries
                                                .first()
                                                .map(|e| String::from_utf8_lossy(&e.value).to_string()),
                                        )
                                    }
                                    None => ClientOutcome::Err("empty".into()),
                                }
                            }
                        }
                    };
                }
            }
        }
    }

    // ------------------------------------------------------------------------------------
    // enabled events
    // ------------------------------------------------------------------------------------

    pub fn up_ids(&self) -> Vec<u32> {
        self.slots.iter().filter(|(_, s)| matches!(s, Slot::Up(_))).map(|(i, _)| *i).collect()
    }

    /// snapshot pushes in flight: (from, to)
    pub fn pushes(&self) -> Vec<(u32, u32)> {
        let g = self.net.0.lock().unwrap();
        let mut v: Vec<(u32, u32)> = g.pending_push.iter().map(|p| (p.from, p.to)).collect();
        v.sort_unstable();
        v
    }

    pub fn links(&self) -> Vec<(LinkId, usize, usize, bool)> {
        let g = self.net.0.lock().unwrap();
        let mut v: Vec<(LinkId, usize, usize, bool)> = g
            .links
            .iter()
            .map(|l| {
                (
                    LinkId { from: l.from, to: l.to, generation: l.generation },
                    l.in_flight.len(),
                    l.responses.len(),
                    l.broken || l.resp_tx.is_closed(),
                )
            })
            .collect();
        v.sort();
        v
    }

    // ------------------------------------------------------------------------------------
    // apply one event
    // ------------------------------------------------------------------------------------

    /// timed mode: the lease clock (now_ms) follows tokio's paused clock
    pub fn sync_clock(&mut self) {
        if self.opts.timed {
            self.clock_ms = tokio::time::Instant::now().saturating_duration_since(self.t0).as_millis() as u64;
            d_engine_core::verif_clock::set(Some(self.clock_ms));
        }
    }

    pub async fn apply(&mut self, ev: &Event) -> Res<()> {
        let r = self.apply_inner(ev).await;
        // the simulated network carries one election at a time: a second candidate (two timers
        // that became due within the same event) ends the path - it is pruned, not judged
        if self.net.0.lock().unwrap().nested_election && self.stuck.is_none() {
            self.stuck = Some("a second node started an election while one was in flight (harness limit)".into());
        }
        r
    }

    async fn apply_inner(&mut self, ev: &Event) -> Res<()> {
        self.events_applied += 1;
        self.history.push(ev.clone());
        self.sync_clock();
        match ev {
            Event::Timeout(id) | Event::Heartbeat(id) => {
                if self.election.is_some() {
                    return Err("event during election".into());
                }
                match self.slots.get_mut(id) {
                    Some(Slot::Up(n)) => n.raft.verif_expire_timer(),
                    _ => return Err(format!("node {id} is not up")),
                }
                self.settle(*id).await?;
            }
            Event::TimerAfterNextTurn(id) => {
                if self.node(*id).is_none() {
                    return Err(format!("node {id} is not up"));
                }
                self.armed_timers.insert(*id);
            }
            Event::Vote(peer, ans) => {
                let Some(el) = self.election.as_mut() else {
                    return Err("no election in flight".into());
                };
                let next = el.peers[el.answered.len()];
                if next != *peer {
                    return Err(format!("vote answer for {peer}, expected {next}"));
                }
                let cand = el.node;
                let req = self.net.0.lock().unwrap().pending_vote.as_ref().unwrap().req;
                let mut response = None;
                if self.opts.timed && *ans != VoteAns::Lose {
                    if let Some(n) = self.node(*peer) {
                        if n.raft.verif_next_deadline() <= tokio::time::Instant::now() && !n.fatal {
                            self.stuck = Some(format!("voter {peer}'s own timer is due while it is asked for its vote"));
                        }
                    }
                }
                if self.stuck.is_none() && *ans != VoteAns::Lose && matches!(self.slots.get(peer), Some(Slot::Up(_))) {
                    let (tx, mut rx) = MaybeCloneOneshot::new();
                    let sent = self
                        .node(*peer)
                        .unwrap()
                        .event_tx
                        .try_send(InboundEvent::ReceiveVoteRequest(req, tx))
                        .is_ok();
                    if sent {
                        self.settle(*peer).await?;
                        if let Some(Ok(Ok(r))) = (&mut rx).now_or_never() {
                            self.oracle.on_vote_response(*peer, cand, req.term, &r);
                            // C27: a node that is a learner (its own role) never grants a vote
                            let is_learner = self
                                .node(*peer)
                                .map(|n| n.role_kind() == RoleKind::Learner)
                                .unwrap_or(false);
                            if is_learner && r.vote_granted {
                                self.oracle.violate(
                                    "C27",
                                    format!("lv{peer}t{}", req.term),
                                    format!("learner {peer} granted its vote to {cand} in term {}", req.term),
                                );
                            }
                            if *ans == VoteAns::Deliver {
                                response = Some(r);
                            }
                        }
                    }
                }
                let el = self.election.as_mut().unwrap();
                el.answered.push((*peer, response));
                if el.answered.len() == el.peers.len() {
                    // hand the collected result to the candidate and resume its turn
                    let el = self.election.take().unwrap();
                    let pv = self.net.0.lock().unwrap().pending_vote.take().unwrap();
                    let responses = el
                        .answered
                        .iter()
                        .map(|(_, r)| match r {
                            Some(r) => Ok(*r),
                            None => Err(d_engine_core::NetworkError::TaskBackoffFailed(
                                "vote rpc failed".into(),
                            )
                            .into()),
                        })
                        .collect();
                    let granted =
                        el.answered.iter().filter(|(_, r)| r.map(|x| x.vote_granted).unwrap_or(false)).count();
                    self.oracle.on_election_result(cand, req.term, granted, el.peers.len());
                    let granters: Vec<u32> = el
                        .answered
                        .iter()
                        .filter(|(_, r)| r.map(|x| x.vote_granted).unwrap_or(false))
                        .map(|(p, _)| *p)
                        .collect();
                    self.oracle.on_election_quorum(cand, req.term, granters, el.peers.clone());
                    let _ = pv.reply.send(VoteResult {
                        peer_ids: el.peers.iter().copied().collect(),
                        responses,
                    });
                    let mut fut = el.fut;
                    let mut spins = 0;
                    let (mut node, r) = loop {
                        match futures::poll!(fut.as_mut()) {
                            std::task::Poll::Ready(v) => break v,
                            std::task::Poll::Pending => {
                                spins += 1;
                                if spins > 200 {
                                    return Err("candidate turn does not finish".into());
                                }
                                quiesce().await;
                            }
                        }
                    };
                    if let Err(e) = r {
                        node.fatal = true;
                        self.oracle.note(format!("node {cand} fatal: {e}"));
                    }
                    self.slots.insert(cand, Slot::Up(node));
                    self.after_turn(cand).await;
                    self.settle(cand).await?;
                }
            }
            Event::Deliver(link, k) => {
                let reqs: Vec<AppendEntriesRequest> = {
                    let mut g = self.net.0.lock().unwrap();
                    let l = g
                        .links
                        .iter_mut()
                        .find(|l| l.from == link.from && l.to == link.to && l.generation == link.generation)
                        .ok_or("no such link")?;
                    let mut v = vec![];
                    for _ in 0..*k {
                        match l.in_flight.pop_front() {
                            Some(r) => v.push(r),
                            None => return Err("link has too few requests".into()),
                        }
                    }
                    v
                };
                if let Some(n) = self.node(link.to) {
                    let etx = n.event_tx.clone();
                    for r in reqs {
                        let (tx, rx) = MaybeCloneOneshot::new();
                        if etx.try_send(InboundEvent::AppendEntries(r, vec![tx])).is_ok() {
                            self.awaiting.push(Awaiting { link: *link, rx });
                        }
                    }
                    self.settle(link.to).await?;
                }
                // target down: the request is lost
            }
            Event::DeliverResp(link) => {
                let mut acked = false;
                let ok = {
                    let mut g = self.net.0.lock().unwrap();
                    let l = g
                        .links
                        .iter_mut()
                        .find(|l| l.from == link.from && l.to == link.to && l.generation == link.generation)
                        .ok_or("no such link")?;
                    let r = l.responses.pop_front().ok_or("no response queued")?;
                    if r.is_success() {
                        acked = true;
                    }
                    l.resp_tx.send(Ok(r)).is_ok()
                };
                if acked {
                    self.last_ack_ms.insert((link.from, link.to), self.clock_ms);
                }
                if ok {
                    self.settle(link.from).await?;
                }
            }
            Event::DeliverResp2(a, b) => {
                let mut any = false;
                for link in [a, b] {
                    let mut g = self.net.0.lock().unwrap();
                    let l = g
                        .links
                        .iter_mut()
                        .find(|l| l.from == link.from && l.to == link.to && l.generation == link.generation)
                        .ok_or("no such link")?;
                    let r = l.responses.pop_front().ok_or("no response queued")?;
                    if r.is_success() {
                        let now = self.clock_ms;
                        self.last_ack_ms.insert((link.from, link.to), now);
                    }
                    any |= l.resp_tx.send(Ok(r)).is_ok();
                }
                if a.from != b.from {
                    return Err("responses for two different leaders".into());
                }
                if any {
                    // both are in the leader's internal queue before its turn starts
                    quiesce().await;
                    self.settle(a.from).await?;
                }
            }
            Event::Break(link) => {
                {
                    let mut g = self.net.0.lock().unwrap();
                    let l = g
                        .links
                        .iter_mut()
                        .find(|l| l.from == link.from && l.to == link.to && l.generation == link.generation)
                        .ok_or("no such link")?;
                    l.broken = true;
                    l.responses.clear();
                    let _ = l.resp_tx.send(Err(tonic::Status::unavailable("stream broken")));
                }
                self.awaiting.retain(|a| a.link != *link);
                self.settle(link.from).await?;
            }
            Event::DropReq(link) => {
                let mut g = self.net.0.lock().unwrap();
                let l = g
                    .links
                    .iter_mut()
                    .find(|l| l.from == link.from && l.to == link.to && l.generation == link.generation)
                    .ok_or("no such link")?;
                l.in_flight.pop_front().ok_or("nothing to drop")?;
            }
            Event::ClientWrite(id, op) => {
                self.client_write(*id, std::slice::from_ref(op)).await?;
            }
            Event::ClientWritePair(id, a, b) => {
                self.client_write(*id, &[a.clone(), b.clone()]).await?;
            }
            Event::ClientMixed(id, op, key) => {
                self.queue_read(*id, key, RPolicy::Linearizable)?;
                self.client_write(*id, std::slice::from_ref(op)).await?;
            }
            Event::ClientRead(id, key, pol) => {
                let n = self.node(*id).ok_or("node not up")?;
                let (tx, rx) = MaybeCloneOneshot::new();
                let req = ClientReadRequest {
                    client_id: 1,
                    keys: vec![Bytes::from(key.clone())],
                    consistency_policy: to_policy(*pol),
                };
                let role = n.role_kind();
                let term = n.raft.current_term();
                let sent = n.cmd_tx.try_send(ClientCmd::Read(req, tx)).is_ok();
                let idx = self.clients.len();
                self.clients.push(ClientReq {
                    id: idx,
                    node: *id,
                    write: None,
                    read: Some((key.clone(), *pol)),
                    rx: if sent { Some(rx) } else { None },
                    outcome: if sent { ClientOutcome::Pending } else { ClientOutcome::Closed },
            read_entries: vec![],
                    invoked_at_event: self.events_applied,
                    resolved_at_event: None,
                    invoked_ms: self.clock_ms,
                    resolved_ms: None,
                    role_at_invoke: role,
                    term_at_invoke: term,
                });
                self.settle(*id).await?;
            }
            Event::Crash(id, mode) => {
                if let Some(n) = self.node(*id) {
                    let m = n.view().await.members;
                    self.membership_at_stop.insert(*id, m);
                }
                let Some(node) = self.take(*id) else { return Err("node not up".into()) };
                let image = node.crash(*mode);
                self.slots.insert(*id, Slot::Down(image));
                self.on_node_gone(*id);
                quiesce().await;
                self.collect_responses();
                self.collect_clients();
                // leaders notice broken streams
                for other in self.up_ids() {
                    self.settle(other).await?;
                }
            }
            Event::Stop(id) => {
                if let Some(n) = self.node(*id) {
                    let m = n.view().await.members;
                    self.membership_at_stop.insert(*id, m);
                }
                let Some(mut node) = self.take(*id) else { return Err("node not up".into()) };
                // EmbeddedEngine::stop -> shutdown arm of Raft::run -> Node::run tail -> drops
                node.sm.close_storage();
                let _ = node.shutdown_tx.send(());
                node.raft.verif_shutdown_arm().await;
                quiesce().await;
                let sm_image = node.sm_image.clone();
                let disk = node.disk.clone();
                let sm = node.sm.clone();
                let tasks = std::mem::take(&mut node.tasks);
                drop(node); // Drop for Raft -> save_hard_state
                quiesce().await;
                let _ = sm.stop();
                for t in tasks {
                    t.abort();
                }
                quiesce().await;
                let image = NodeImage { disk: disk.written(), sm: sm_image };
                disk.kill();
                self.slots.insert(*id, Slot::Down(image));
                self.on_node_gone(*id);
                self.collect_responses();
                self.collect_clients();
                for other in self.up_ids() {
                    self.settle(other).await?;
                }
            }
            Event::Restart(id) => {
                let image = match self.slots.remove(id) {
                    Some(Slot::Down(img)) => img,
                    Some(other) => {
                        self.slots.insert(*id, other);
                        return Err("node is not down".into());
                    }
                    None => return Err("unknown node".into()),
                };
                self.start_node(*id, image).await?;
                self.settle(*id).await?;
                // ---- C28: the restarted node's view of the cluster equals what it had applied
                //      before it went down (checked before anything new is delivered to it)
                if let (Some(before), Some(n)) = (self.membership_at_stop.get(id).cloned(), self.node(*id)) {
                    let now = n.view().await.members;
                    if now != before {
                        let name = |m: &Vec<(u32, i32, i32)>| -> String {
                            m.iter()
                                .map(|(i, role, st)| format!("{i}:{}{}", if *role == NodeRole::Learner as i32 { "L" } else { "V" },
                                    if *st == NodeStatus::Active as i32 { "" } else { "(inactive)" }))
                                .collect::<Vec<_>>()
                                .join(",")
                        };
                        let mut stat: Vec<(u32, i32, i32)> = self
                            .opts
                            .initial_cluster_for(*id)
                            .iter()
                            .map(|n| (n.id, n.role, n.status))
                            .collect();
                        stat.sort_unstable();
                        let class = if now == stat {
                            "it fell back to its static initial configuration"
                        } else {
                            "its view is neither the applied nor the static configuration"
                        };
                        self.oracle.violate(
                            "C28",
                            format!("n{id}"),
                            format!(
                                "node {id} restarted with membership [{}] but had applied [{}] before it went down ({class})",
                                name(&now),
                                name(&before)
                            ),
                        );
                    }
                }
            }
            Event::ApplyRelease(id) => {
                let n = self.node(*id).ok_or("node not up")?;
                n.sm.gate.add_permits(1);
                self.settle(*id).await?;
            }
            Event::Advance(ms) => {
                self.clock_ms += *ms;
                d_engine_core::verif_clock::set(Some(self.clock_ms));
                tokio::time::advance(Duration::from_millis(*ms)).await;
                for id in self.up_ids() {
                    self.settle(id).await?;
                }
            }
            Event::AssertRecovered(_) => {
                // evaluated by cluster_ext::apply_any
            }
            Event::FailApply(id) => {
                let n = self.node(*id).ok_or("node not up")?;
                n.sm.fail_next_apply.store(true, Ordering::SeqCst);
            }
            Event::Tick => {
                if self.election.is_some() {
                    return Err("tick during election".into());
                }
                let mut best: Option<(tokio::time::Instant, u32)> = None;
                for (id, s) in &self.slots {
                    if let Slot::Up(n) = s {
                        if n.fatal {
                            continue;
                        }
                        let d = n.raft.verif_next_deadline();
                        if best.map(|b| d < b.0).unwrap_or(true) {
                            best = Some((d, *id));
                        }
                    }
                }
                let Some((d, id)) = best else { return Err("no live node to tick".into()) };
                let now = tokio::time::Instant::now();
                if d > now {
                    tokio::time::advance(d - now).await;
                }
                self.sync_clock();
                self.settle(id).await?;
            }
            Event::Snapshot(id) => {
                let n = self.node(*id).ok_or("node not up")?;
                let _ = n.internal_tx.send(d_engine_core::InternalEvent::CreateSnapshotEvent);
                self.settle(*id).await?;
                // snapshot creation runs as a spawned task doing file IO: wait for it
                for _ in 0..50 {
                    quiesce().await;
                    tokio::task::yield_now().await;
                }
                self.settle(*id).await?;
            }
            Event::Join(id) => {
                if !matches!(self.slots.get(id), Some(Slot::Absent)) {
                    return Err(format!("node {id} cannot join (not absent)"));
                }
                self.refresh_directory();
                self.start_node(*id, NodeImage::default()).await?;
                let Some(node) = self.take(*id) else { return Err("joiner vanished".into()) };
                let mut fut: JoinFut = Box::pin(async move {
                    let r = node.raft.join_cluster().await.map_err(|e| format!("{e:?}"));
                    (node, r)
                });
                let mut spins = 0;
                let ready = loop {
                    match futures::poll!(fut.as_mut()) {
                        std::task::Poll::Ready(v) => break Some(v),
                        std::task::Poll::Pending => {
                            if self.net.0.lock().unwrap().pending_join.iter().any(|p| p.from == *id) {
                                break None;
                            }
                            spins += 1;
                            if spins > 200 {
                                return Err(format!("joiner {id} blocked on an unknown await"));
                            }
                            quiesce().await;
                        }
                    }
                };
                match ready {
                    Some((node, r)) => {
                        // no leader found / immediate failure: Node::run would exit with the error
                        drop(node);
                        self.slots.insert(*id, Slot::Absent);
                        self.join_results.push((*id, 0, r.is_ok()));
                    }
                    None => {
                        let pj = {
                            let mut g = self.net.0.lock().unwrap();
                            let pos = g.pending_join.iter().position(|p| p.from == *id).unwrap();
                            g.pending_join.remove(pos)
                        };
                        let mut rx = None;
                        if let Some(l) = self.node(pj.leader) {
                            let (tx, r) = MaybeCloneOneshot::new();
                            if l.event_tx.try_send(InboundEvent::JoinCluster(pj.req.clone(), tx)).is_ok() {
                                rx = Some(r);
                            }
                        }
                        let delivered = rx.is_some();
                        self.joining.push(Joining { node: *id, fut, leader: pj.leader, reply: Some(pj.reply), rx });
                        if delivered {
                            self.settle(pj.leader).await?;
                        }
                    }
                }
                self.poll_joins().await?;
            }
            Event::PushDeliver(from, to) | Event::PushFail(from, to) => {
                let push = {
                    let mut g = self.net.0.lock().unwrap();
                    let pos = g.pending_push.iter().position(|p| p.from == *from && p.to == *to).ok_or("no such snapshot push in flight")?;
                    g.pending_push.remove(pos)
                };
                let deliver = matches!(ev, Event::PushDeliver(..)) && self.node(*to).is_some();
                if deliver {
                    // the whole chunk stream reaches the follower, which installs it in one turn
                    let (ctx, crx) = tokio::sync::mpsc::channel(push.chunks.len() + 1);
                    for c in push.chunks {
                        let _ = ctx.try_send(c);
                    }
                    drop(ctx);
                    let (tx, mut rx) = MaybeCloneOneshot::new();
                    let sent = self.node(*to).unwrap().event_tx.try_send(InboundEvent::InstallSnapshotChunk(crx, tx)).is_ok();
                    let mut ok = false;
                    if sent {
                        self.settle(*to).await?;
                        // the install does file IO on the blocking pool
                        for _ in 0..20 {
                            quiesce().await;
                            tokio::task::yield_now().await;
                        }
                        self.settle(*to).await?;
                        if let Some(Ok(Ok(r))) = (&mut rx).now_or_never() {
                            ok = r.success;
                        }
                    }
                    let _ = push.reply.send(if ok {
                        Ok(())
                    } else {
                        Err(d_engine_core::NetworkError::TaskBackoffFailed("snapshot rejected".into()).into())
                    });
                } else {
                    let _ = push.reply.send(Err(d_engine_core::NetworkError::TaskBackoffFailed("snapshot push lost".into()).into()));
                }
                quiesce().await;
                if self.node(*from).is_some() {
                    self.settle(*from).await?;
                }
            }
            Event::JoinDeliver(_) => {
                return Err("not implemented".into());
            }
        }
        // every event may have produced messages anywhere
        quiesce().await;
        self.net.pump();
        self.collect_responses();
        self.collect_clients();
        if !self.joining.is_empty() {
            self.poll_joins().await?;
        }
        self.refresh_directory();
        self.sync_clock();
        Ok(())
    }

    fn on_node_gone(&mut self, id: u32) {
        let mut g = self.net.0.lock().unwrap();
        for l in g.links.iter_mut() {
            if l.to == id && !l.broken {
                // the leader's side sees the stream fail
                let _ = l.resp_tx.send(Err(tonic::Status::unavailable("peer gone")));
                l.broken = true;
                l.responses.clear();
                l.in_flight.clear();
            }
            if l.from == id {
                l.broken = true;
                l.responses.clear();
            }
        }
        drop(g);
        self.awaiting.retain(|a| a.link.to != id && a.link.from != id);
        // client requests of a dead node observe a closed channel
    }

    /// queue a read on the node's command channel without running its turn
    fn queue_read(&mut self, id: u32, key: &str, pol: RPolicy) -> Res<()> {
        self.queue_read_keys(id, &[key], pol)
    }

    pub fn queue_read_keys(&mut self, id: u32, keys: &[&str], pol: RPolicy) -> Res<()> {
        let key = keys.first().copied().unwrap_or("");
        let n = self.node(id).ok_or("node not up")?;
        let (tx, rx) = MaybeCloneOneshot::new();
        let req = ClientReadRequest {
            client_id: 1,
            keys: keys.iter().map(|k| Bytes::from(k.to_string())).collect(),
            consistency_policy: to_policy(pol),
        };
        let role = n.role_kind();
        let term = n.raft.current_term();
        let sent = n.cmd_tx.try_send(ClientCmd::Read(req, tx)).is_ok();
        let idx = self.clients.len();
        self.clients.push(ClientReq {
            id: idx,
            node: id,
            write: None,
            read: Some((key.to_string(), pol)),
            rx: if sent { Some(rx) } else { None },
            outcome: if sent { ClientOutcome::Pending } else { ClientOutcome::Closed },
            read_entries: vec![],
            invoked_at_event: self.events_applied,
            resolved_at_event: None,
            invoked_ms: self.clock_ms,
            resolved_ms: None,
            role_at_invoke: role,
            term_at_invoke: term,
        });
        Ok(())
    }

    async fn client_write(&mut self, id: u32, ops: &[Op]) -> Res<()> {
        let n = self.node(id).ok_or("node not up")?;
        let role = n.role_kind();
        let term = n.raft.current_term();
        let cmd_tx = n.cmd_tx.clone();
        for op in ops {
            let (tx, rx) = MaybeCloneOneshot::new();
            let req = ClientWriteRequest { client_id: 1, command: Some(op_to_write(op)) };
            let sent = cmd_tx.try_send(ClientCmd::Propose(req, tx)).is_ok();
            let idx = self.clients.len();
            self.clients.push(ClientReq {
                id: idx,
                node: id,
                write: Some(op.clone()),
                read: None,
                rx: if sent { Some(rx) } else { None },
                outcome: if sent { ClientOutcome::Pending } else { ClientOutcome::Closed },
            read_entries: vec![],
                invoked_at_event: self.events_applied,
                resolved_at_event: None,
                invoked_ms: self.clock_ms,
                resolved_ms: None,
                role_at_invoke: role,
                term_at_invoke: term,
            });
        }
        let first = self.clients.len() - ops.len();
        self.settle(id).await?;
        if role == RoleKind::Leader {
            let rejected_at_once = self.clients[first..].iter().all(|c| {
                matches!(&c.outcome, ClientOutcome::Err(e) if e.starts_with("ResourceExhausted") || e.starts_with("InvalidArgument"))
            });
            if !rejected_at_once {
                self.oracle.on_write_accepted(id, term);
            }
        }
        Ok(())
    }

    // ------------------------------------------------------------------------------------
    // fingerprint
    // ------------------------------------------------------------------------------------

    pub async fn fingerprint(&self) -> u128 {
        let mut h1 = std::collections::hash_map::DefaultHasher::new();
        let mut h2 = std::collections::hash_map::DefaultHasher::new();
        0xA5A5u16.hash(&mut h2);
        let mut feed = |bytes: &dyn Fn(&mut std::collections::hash_map::DefaultHasher)| {
            bytes(&mut h1);
            bytes(&mut h2);
        };
        for (id, slot) in &self.slots {
            match slot {
                Slot::Up(n) => {
                    let v = n.view().await;
                    let gate_waiting = n.sm.waiting.load(Ordering::SeqCst);
                    let img = n.disk.written();
                    let syn = n.disk.synced();
                    feed(&|h| {
                        1u8.hash(h);
                        v.hash(h);
                        gate_waiting.hash(h);
                        hash_image(&img, h);
                        hash_image(&syn, h);
                    });
                }
                Slot::Busy => feed(&|h| {
                    2u8.hash(h);
                    id.hash(h);
                }),
                Slot::Down(img) => {
                    let sm = img.sm.lock().unwrap();
                    let kv: Vec<_> = sm.state.kv.iter().collect();
                    feed(&|h| {
                        3u8.hash(h);
                        id.hash(h);
                        hash_image(&img.disk, h);
                        sm.last_applied.index.hash(h);
                        kv.hash(h);
                    });
                }
                Slot::Absent => feed(&|h| {
                    4u8.hash(h);
                    id.hash(h);
                }),
            }
        }
        {
            let g = self.net.0.lock().unwrap();
            let mut links: Vec<_> = g.links.iter().collect();
            links.sort_by_key(|l| (l.from, l.to, l.generation));
            for l in links {
                let reqs: Vec<Vec<u8>> = l.in_flight.iter().map(|r| r.encode_to_vec()).collect();
                let resps: Vec<Vec<u8>> = l.responses.iter().map(|r| r.encode_to_vec()).collect();
                let dead = l.broken || l.resp_tx.is_closed();
                feed(&|h| {
                    (l.from, l.to, dead).hash(h);
                    reqs.hash(h);
                    resps.hash(h);
                });
            }
            if let Some(pv) = &g.pending_vote {
                feed(&|h| {
                    pv.candidate.hash(h);
                    pv.req.encode_to_vec().hash(h);
                });
            }
        }
        if let Some(el) = &self.election {
            let ans: Vec<(u32, Option<Vec<u8>>)> =
                el.answered.iter().map(|(p, r)| (*p, r.map(|x| x.encode_to_vec()))).collect();
            feed(&|h| {
                el.node.hash(h);
                ans.hash(h);
            });
        }
        let aw: Vec<LinkId> = self.awaiting.iter().map(|a| a.link).collect();
        let cl: Vec<(u32, &Option<Op>, &Option<(String, RPolicy)>, &ClientOutcome)> =
            self.clients.iter().map(|c| (c.node, &c.write, &c.read, &c.outcome)).collect();
        let oracle_fp = self.oracle.fingerprint();
        // timed mode: absolute time is not part of the state; what matters is how far every
        // timer, lease and pending request is from its deadline (in the node views) and how old
        // the pending client requests are
        let clock: Vec<u64> = if self.opts.timed {
            self.clients
                .iter()
                .filter(|c| c.outcome == ClientOutcome::Pending)
                .map(|c| self.clock_ms.saturating_sub(c.invoked_ms) / 100)
                .collect()
        } else {
            vec![]
        };
        let armed: Vec<u32> = self.armed_timers.iter().copied().collect();
        let pushes = self.pushes();
        feed(&|h| {
            pushes.hash(h);
            armed.hash(h);
            aw.iter().map(|l| (l.from, l.to)).collect::<Vec<_>>().hash(h);
            self.joining.iter().map(|j| (j.node, j.leader, j.rx.is_some())).collect::<Vec<_>>().hash(h);
            self.join_results.hash(h);
            cl.hash(h);
            oracle_fp.hash(h);
            clock.hash(h);
        });
        ((h1.finish() as u128) << 64) | (h2.finish() as u128)
    }
}

fn hash_image(img: &super::store::DiskImage, h: &mut std::collections::hash_map::DefaultHasher) {
    for (i, e) in &img.log {
        (i, e.term, payload_hash(e)).hash(h);
    }
    img.purge.map(|p| (p.index, p.term)).hash(h);
    img.hard
        .map(|hs| {
            (hs.current_term, hs.voted_for.map(|v| (v.voted_for_id, v.voted_for_term, v.committed)))
        })
        .hash(h);
}

pub type PendingQueue = VecDeque<Event>;
