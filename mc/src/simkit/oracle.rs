//! History variables and safety oracles for the cluster explorer.
//!
//! Every oracle is a restatement of one property's sentence over observables; each violation
//! is tagged with the property id, and a check only reports the ids it was asked about.

use std::collections::BTreeMap;
use std::collections::BTreeSet;
use std::hash::Hash;
use std::hash::Hasher;

use d_engine_core::Command;
use d_engine_proto::server::election::VoteResponse;
use d_engine_proto::server::replication::AppendEntriesRequest;

use super::cluster::LogEnt;
use super::cluster::NodeView;
use super::cluster::RoleKind;
use super::cluster::Violation;
use super::sm::Observer;

#[derive(Clone, Debug, PartialEq, Eq, Hash)]
pub struct Committed {
    pub term: u64,
    pub payload: u64,
    /// term of the leader that advanced its commit index over this entry
    pub by_term: u64,
    pub by_node: u32,
}

#[derive(Default)]
pub struct Oracle {
    pub violations: Vec<Violation>,
    seen_keys: BTreeSet<String>,
    pub notes: Vec<String>,

    /// term in which a node that is currently in the Leader role entered it (C05a: a leader
    /// that has adopted a higher term and is about to step down is not a leader of that term)
    pub leader_since_term: BTreeMap<u32, u64>,
    // C01
    pub acted: BTreeMap<u64, BTreeSet<u32>>,
    pub leader_seen: BTreeMap<u64, BTreeSet<u32>>,
    // C02
    pub grants: BTreeMap<(u32, u64), BTreeSet<u32>>,
    pub max_term: BTreeMap<u32, u64>,
    // C03
    pub elections: Vec<(u32, u64, usize, usize)>,
    // C05 / C07 / C09
    pub committed: BTreeMap<u64, Committed>,
    pub last_commit: BTreeMap<u32, u64>,
    // C06
    pub start_applied: BTreeMap<(u32, u32), u64>,
    pub applied_seen: BTreeMap<(u32, u32), usize>,
    pub next_expected: BTreeMap<(u32, u32), u64>,
    pub applied_cmd: BTreeMap<u64, (u64, u32)>,
    pub applied_values: BTreeSet<String>,
    // C31
    pub notified: BTreeMap<u32, (u32, u64)>,
    pub notified_by_term: BTreeMap<u64, BTreeSet<u32>>,
    pub pending_notifications: Vec<(u32, u32, u64)>,
    // previous view per node (C05 b)
    pub prev_logs: BTreeMap<u32, Vec<LogEnt>>,
    pub c09_checked: BTreeMap<(u32, u64), u64>,
    // membership (C03 / C26 / C27)
    pub joins: Vec<(u32, u32, bool)>,
    /// (candidate, term) -> (candidate + granting voters, voters asked)
    pub election_votes: BTreeMap<(u32, u64), (BTreeSet<u32>, BTreeSet<u32>)>,
    pub leader_first_seen: BTreeSet<(u32, u64)>,
    /// event number at which (node, term) was first seen in the Leader role
    pub leader_seen_at: BTreeMap<(u32, u64), usize>,
    /// virtual time of that sighting (set by the cluster after the turn)
    pub leader_seen_ms: BTreeMap<(u32, u64), u64>,
    pub prev_role: BTreeMap<u32, RoleKind>,
    /// quorums actually used: ("election", term, members) / ("commit", term of the leader, holders)
    pub used_quorums: Vec<(String, u64, u64, BTreeSet<u32>, BTreeSet<u32>)>,
}

fn cmd_hash(c: &Command) -> u64 {
    let mut h = std::collections::hash_map::DefaultHasher::new();
    format!("{c:?}").hash(&mut h);
    h.finish()
}

impl Oracle {
    pub fn violate(&mut self, property: &str, key: String, what: String) {
        let k = format!("{property}|{key}");
        if self.seen_keys.insert(k) {
            self.violations.push(Violation { property: property.to_string(), what });
        }
    }

    pub fn note(&mut self, s: String) {
        if self.notes.len() < 64 {
            self.notes.push(s);
        }
    }

    pub fn on_start(&mut self, id: u32, inc: u32, last_applied: u64) {
        self.start_applied.insert((id, inc), last_applied);
        self.next_expected.insert((id, inc), last_applied + 1);
        self.prev_logs.remove(&id);
        self.prev_role.remove(&id);
    }

    /// a candidate's vote requests for `term` are out: it has voted for itself in that term
    pub fn on_vote_request(&mut self, candidate: u32, term: u64) {
        let set = self.grants.entry((candidate, term)).or_default();
        set.insert(candidate);
        if set.len() > 1 {
            let s = format!("{set:?}");
            self.violate(
                "C02",
                format!("dv{candidate}t{term}"),
                format!("node {candidate} granted its vote in term {term} to several candidates {s} (its own candidacy counts)"),
            );
        }
    }

    pub fn on_write_accepted(&mut self, node: u32, term: u64) {
        self.acted.entry(term).or_default().insert(node);
        self.check_c01();
    }

    fn check_c01(&mut self) {
        let bad: Vec<(u64, String)> = self
            .acted
            .iter()
            .filter(|(_, s)| s.len() > 1)
            .map(|(t, s)| (*t, format!("{s:?}")))
            .collect();
        for (t, s) in bad {
            self.violate(
                "C01",
                format!("t{t}"),
                format!("term {t} has several nodes acting as leader (AppendEntries sent / writes accepted): {s}"),
            );
        }
    }

    pub fn on_vote_response(&mut self, voter: u32, candidate: u32, term: u64, r: &VoteResponse) {
        if r.vote_granted {
            let set = self.grants.entry((voter, term)).or_default();
            set.insert(candidate);
            if set.len() > 1 {
                let s = format!("{set:?}");
                self.violate(
                    "C02",
                    format!("dv{voter}t{term}"),
                    format!("node {voter} granted its vote in term {term} to several candidates {s}"),
                );
            }
        }
    }

    pub fn on_election_result(&mut self, cand: u32, term: u64, granted: usize, peers: usize) {
        self.elections.push((cand, term, granted, peers));
    }

    pub fn on_election_quorum(&mut self, cand: u32, term: u64, granters: Vec<u32>, asked: Vec<u32>) {
        let mut q: BTreeSet<u32> = granters.into_iter().collect();
        q.insert(cand);
        self.election_votes.insert((cand, term), (q, asked.into_iter().collect()));
    }

    /// C26: quorums that were actually USED must intersect where Raft needs them to:
    /// two election quorums of one term, and an election quorum of term T with every commit
    /// quorum of an earlier term.
    pub fn check_quorums(&mut self) {
        let qs = self.used_quorums.clone();
        for (i, (ka, ta, na, qa, ca)) in qs.iter().enumerate() {
            for (kb, tb, nb, qb, cb) in qs.iter().skip(i + 1) {
                let disjoint = qa.intersection(qb).next().is_none();
                if !disjoint {
                    continue;
                }
                let bad = match (ka.as_str(), kb.as_str()) {
                    ("election", "election") => ta == tb && na != nb,
                    ("election", "commit") => tb < ta,
                    ("commit", "election") => ta < tb,
                    _ => false,
                };
                if bad {
                    // root-cause class: how far apart are the two configurations the quorums
                    // were computed from (a single-server change differs by one voter)
                    let delta = ca.symmetric_difference(cb).count();
                    let class = match delta {
                        0 => "both computed from the same configuration".to_string(),
                        1 => "computed from configurations that differ by one voter".to_string(),
                        _ => "computed from configurations that differ by two or more voters".to_string(),
                    };
                    self.violate(
                        "C26",
                        format!("{ka}{ta}n{na}-{kb}{tb}n{nb}"),
                        format!(
                            "two quorums that were actually used do not intersect ({class}): {ka} by node {na} in term {ta} used {qa:?} of voters {ca:?}, {kb} by node {nb} in term {tb} used {qb:?} of voters {cb:?}"
                        ),
                    );
                }
            }
        }
    }

    pub fn on_commit_quorum(&mut self, leader: u32, term: u64, holders: BTreeSet<u32>, voters: BTreeSet<u32>) {
        let key = ("commit".to_string(), term, leader as u64, holders, voters);
        if !self.used_quorums.contains(&key) {
            self.used_quorums.push(key);
            self.check_quorums();
        }
    }

    /// One value published on `node`'s leader-change watch.
    pub fn on_notification(&mut self, node: u32, value: Option<(u32, u64)>) {
        let Some((lid, term)) = value else { return };
        let prev = self.notified.get(&node).copied();
        if prev == Some((lid, term)) {
            return;
        }
        if let Some((_, pt)) = prev {
            if term < pt {
                self.violate("C31", format!("dec{node}"), format!("node {node} was notified of term {term} after term {pt}"));
            }
        }
        self.notified.insert(node, (lid, term));
        let set = self.notified_by_term.entry(term).or_default();
        set.insert(lid);
        if set.len() > 1 {
            let s = format!("{set:?}");
            self.violate("C31", format!("two{term}"), format!("notifications name several leaders for term {term}: {s}"));
        }
        self.pending_notifications.push((node, lid, term));
    }

    pub fn on_join_answer(&mut self, node: u32, leader: u32, success: bool) {
        self.joins.push((node, leader, success));
    }

    /// Called after every single turn of a node.
    pub fn observe(
        &mut self,
        event_no: usize,
        v: &NodeView,
        out_reqs: &[AppendEntriesRequest],
        observer: &Observer,
    ) {
        // ---- C02: term never decreases (across incarnations too)
        let mt = self.max_term.entry(v.id).or_insert(0);
        if v.term < *mt {
            let was = *mt;
            self.violate(
                "C02",
                format!("term{}", v.id),
                format!("node {} current term went back from {} to {}", v.id, was, v.term),
            );
        } else {
            *mt = v.term;
        }

        // ---- C01: who *acts* as leader in which term: sends AppendEntries for it (here) or
        //      accepts a client write in it (`on_write_accepted`). Merely holding the Leader role
        //      object while a step-down is queued is not acting.
        if v.role == RoleKind::Leader {
            self.leader_seen.entry(v.term).or_default().insert(v.id);
            // commit index inherited from the follower role is not an advance made as leader
            self.c09_checked.entry((v.id, v.term)).or_insert(v.commit);
            // a role transition into Leader (a leader whose term was bumped while its step-down
            // is queued is not a new leadership)
            let was_leader = self.prev_role.get(&v.id) == Some(&RoleKind::Leader);
            self.leader_seen_at.entry((v.id, v.term)).or_insert(event_no);
            if !was_leader && self.leader_first_seen.insert((v.id, v.term)) {
                // ---- C03: leadership without anybody else's vote only as the sole voter
                let active = d_engine_proto::common::NodeStatus::Active as i32;
                let other_voters: Vec<u32> = v
                    .members
                    .iter()
                    .filter(|(id, _, status)| *id != v.id && *status == active)
                    .map(|(id, _, _)| *id)
                    .collect();
                let votes = self.election_votes.get(&(v.id, v.term)).cloned();
                let others_granted = votes.as_ref().map(|(q, _)| q.len().saturating_sub(1)).unwrap_or(0);
                if others_granted == 0 && !other_voters.is_empty() {
                    self.violate(
                        "C03",
                        format!("n{}t{}", v.id, v.term),
                        format!(
                            "node {} became leader of term {} without any other node's vote although its membership lists other voters {:?}",
                            v.id, v.term, other_voters
                        ),
                    );
                }
                if let Some((q, asked)) = votes {
                    let mut cfg = asked;
                    cfg.insert(v.id);
                    self.used_quorums.push(("election".into(), v.term, v.id as u64, q, cfg));
                } else {
                    let me: BTreeSet<u32> = [v.id].into_iter().collect();
                    self.used_quorums.push(("election".into(), v.term, v.id as u64, me.clone(), me));
                }
                self.check_quorums();
            }
        }
        self.prev_role.insert(v.id, v.role);
        for r in out_reqs {
            self.acted.entry(r.term).or_default().insert(r.leader_id);
        }
        self.check_c01();

        // ---- C31: leader notifications (every value published, fed by the cluster through
        //      `on_notification`; the sampled watch value is only a fallback)
        if let Some((lid, term)) = v.notified_leader {
            self.on_notification(v.id, Some((lid, term)));
        }

        // ---- C05/C09: record entries the leader treats as committed
        let last = self.last_commit.get(&v.id).copied().unwrap_or(0);
        if v.role == RoleKind::Leader && v.commit > last {
            for i in (last + 1)..=v.commit {
                if let Some(e) = v.log.iter().find(|e| e.index == i) {
                    let c = Committed { term: e.term, payload: e.payload, by_term: v.term, by_node: v.id };
                    match self.committed.get(&i) {
                        None => {
                            self.committed.insert(i, c);
                        }
                        Some(old) => {
                            if old.term != e.term || old.payload != e.payload {
                                let o = old.clone();
                                self.violate(
                                    "C05",
                                    format!("recommit{i}"),
                                    format!(
                                        "index {i} committed twice with different entries: first (term {}, by leader {} in term {}), now (term {}, by leader {} in term {})",
                                        o.term, o.by_node, o.by_term, e.term, v.id, v.term
                                    ),
                                );
                            }
                        }
                    }
                }
            }
        }
        if v.commit != last {
            self.last_commit.insert(v.id, v.commit);
        }

        // ---- C05 (a): a leader of a later term holds every committed entry. A node that was
        //      already in the Leader role with a lower term has only adopted the higher term
        //      (update_current_term + queued BecomeFollower): it never won that term.
        if v.role == RoleKind::Leader {
            self.leader_since_term.entry(v.id).or_insert(v.term);
        } else {
            self.leader_since_term.remove(&v.id);
        }
        if v.role == RoleKind::Leader && self.leader_since_term.get(&v.id) == Some(&v.term) {
            let boundary = purge_boundary(v);
            for (i, c) in &self.committed {
                if c.by_term < v.term && *i > boundary {
                    let ok = v.log.iter().any(|e| e.index == *i && e.term == c.term && e.payload == c.payload);
                    if !ok {
                        let (i, c) = (*i, c.clone());
                        self.violate(
                            "C05",
                            format!("lead{}t{}i{}", v.id, v.term, i),
                            format!(
                                "leader {} of term {} lacks entry {} (term {}) committed in term {}",
                                v.id, v.term, i, c.term, c.by_term
                            ),
                        );
                        break;
                    }
                }
            }
        }

        // ---- C05 (b): nobody overwrites / discards a committed entry it held
        if let Some(prev) = self.prev_logs.get(&v.id) {
            let boundary = purge_boundary(v);
            for p in prev {
                if let Some(c) = self.committed.get(&p.index) {
                    if c.term == p.term && c.payload == p.payload && p.index > boundary {
                        let now = v.log.iter().find(|e| e.index == p.index);
                        let same = now.map(|e| e.term == p.term && e.payload == p.payload).unwrap_or(false);
                        if !same {
                            let idx = p.index;
                            self.violate(
                                "C05",
                                format!("lost{}i{}", v.id, idx),
                                format!(
                                    "node {} held committed entry {} (term {}) and then {} it",
                                    v.id,
                                    idx,
                                    p.term,
                                    if now.is_some() { "overwrote" } else { "discarded" }
                                ),
                            );
                            break;
                        }
                    }
                }
            }
        }
        self.prev_logs.insert(v.id, v.log.clone());

        // ---- C07: what a follower treats as committed is what the leader committed
        if v.role != RoleKind::Leader {
            for e in v.log.iter().filter(|e| e.index <= v.commit) {
                if let Some(c) = self.committed.get(&e.index) {
                    if c.term != e.term || c.payload != e.payload {
                        let (idx, t, ct) = (e.index, e.term, c.term);
                        self.violate(
                            "C07",
                            format!("n{}i{}", v.id, idx),
                            format!(
                                "node {} treats entry {} (term {}) as committed but the leader committed a different entry (term {}) at that index",
                                v.id, idx, t, ct
                            ),
                        );
                        break;
                    }
                }
            }
        }

        // ---- C33: a node purges only what is committed and covered by a snapshot it holds
        {
            let boundary = purge_boundary(v);
            if boundary > 0 {
                // committed = some leader advanced its commit index over it (a follower that
                // installed a snapshot may not have raised its own commit index yet)
                let committed_upto = self.committed.keys().next_back().copied().unwrap_or(0).max(v.commit);
                if boundary > committed_upto {
                    let (b2, c2) = (boundary, committed_upto);
                    self.violate(
                        "C33",
                        format!("commit{}", v.id),
                        format!("node {} purged its log up to index {} although only {} entries are committed", v.id, b2, c2),
                    );
                }
                if boundary > v.snapshot_li {
                    let (b2, s2) = (boundary, v.snapshot_li);
                    self.violate(
                        "C33",
                        format!("snap{}", v.id),
                        format!("node {} purged its log up to index {} but the snapshot it holds only covers index {}", v.id, b2, s2),
                    );
                }
            }
        }

        // ---- C04 (single log part): gap-free and term-monotone
        let mut prev: Option<&LogEnt> = None;
        for e in &v.log {
            if let Some(p) = prev {
                if e.index != p.index + 1 {
                    let (a, b) = (p.index, e.index);
                    self.violate(
                        "C08",
                        format!("gap{}", v.id),
                        format!("log of node {} has a gap between {} and {}", v.id, a, b),
                    );
                    break;
                }
                if e.term < p.term {
                    let (a, b) = (p.index, e.index);
                    self.violate(
                        "C04",
                        format!("mono{}", v.id),
                        format!("log of node {} has decreasing terms at {}..{}", v.id, a, b),
                    );
                    break;
                }
            }
            prev = Some(e);
        }

        // ---- C06: apply stream of this incarnation
        let recs = observer.applies.lock().unwrap();
        for rec in recs.iter() {
            let key = (v.id, rec.incarnation);
            let seen = self.applied_seen.get(&key).copied().unwrap_or(0);
            let _ = seen;
        }
        // process new records in order (records are appended in apply order)
        let total_seen: usize = self.applied_seen.get(&(v.id, 0)).copied().unwrap_or(0);
        for rec in recs.iter().skip(total_seen) {
            let key = (v.id, rec.incarnation);
            let mut expect = self.next_expected.get(&key).copied().unwrap_or(1);
            for (e, ok) in rec.entries.iter().zip(rec.results.iter()) {
                if e.index != expect {
                    let (idx, ex) = (e.index, expect);
                    self.violate(
                        "C06",
                        format!("ord{}", v.id),
                        format!(
                            "node {} applied index {} where {} was expected ({})",
                            v.id,
                            idx,
                            ex,
                            if idx < ex { "applied twice" } else { "gap" }
                        ),
                    );
                }
                expect = e.index + 1;
                let ch = cmd_hash(&e.command);
                match self.applied_cmd.get(&e.index) {
                    None => {
                        self.applied_cmd.insert(e.index, (ch, v.id));
                    }
                    Some((h0, n0)) => {
                        if *h0 != ch {
                            let (idx, n0) = (e.index, *n0);
                            self.violate(
                                "C06",
                                format!("diff{idx}"),
                                format!(
                                    "nodes {} and {} applied different commands at index {}",
                                    n0, v.id, idx
                                ),
                            );
                        }
                    }
                }
                if let Command::Insert { value, .. } | Command::CompareAndSwap { value, .. } = &e.command {
                    self.applied_values.insert(String::from_utf8_lossy(value).to_string());
                }
                let _ = ok;
            }
            self.next_expected.insert(key, expect);
        }
        self.applied_seen.insert((v.id, 0), recs.len());
    }

    pub fn fingerprint(&self) -> u64 {
        let mut h = std::collections::hash_map::DefaultHasher::new();
        self.acted.hash(&mut h);
        self.leader_seen.hash(&mut h);
        self.grants.hash(&mut h);
        self.max_term.hash(&mut h);
        self.committed.hash(&mut h);
        self.applied_cmd.hash(&mut h);
        self.next_expected.hash(&mut h);
        self.notified.hash(&mut h);
        self.notified_by_term.hash(&mut h);
        self.used_quorums.hash(&mut h);
        self.leader_first_seen.hash(&mut h);
        self.violations.len().hash(&mut h);
        h.finish()
    }
}

pub fn purge_boundary(v: &NodeView) -> u64 {
    if let Some(first) = v.log.first() {
        first.index.saturating_sub(1)
    } else {
        v.last_log_id.map(|(i, _)| i).unwrap_or(0)
    }
}

/// Cross-node checks evaluated after every event.
pub fn check_pairs(oracle: &mut Oracle, views: &[NodeView]) {
    // ---- C04 log matching over every pair of logs
    for a in 0..views.len() {
        for b in (a + 1)..views.len() {
            let (x, y) = (&views[a], &views[b]);
            let ym: BTreeMap<u64, &LogEnt> = y.log.iter().map(|e| (e.index, e)).collect();
            // highest common (index, term)
            let mut anchor: Option<u64> = None;
            for e in &x.log {
                if let Some(f) = ym.get(&e.index) {
                    if f.term == e.term {
                        if f.payload != e.payload {
                            oracle.violate(
                                "C04",
                                format!("pay{}-{}i{}", x.id, y.id, e.index),
                                format!(
                                    "nodes {} and {} hold different payloads at index {} term {}",
                                    x.id, y.id, e.index, e.term
                                ),
                            );
                        }
                        anchor = Some(e.index);
                    }
                }
            }
            if let Some(top) = anchor {
                for e in x.log.iter().filter(|e| e.index < top) {
                    if let Some(f) = ym.get(&e.index) {
                        if f.term != e.term || f.payload != e.payload {
                            oracle.violate(
                                "C04",
                                format!("pre{}-{}i{}", x.id, y.id, e.index),
                                format!(
                                    "nodes {} and {} agree at index {} but differ at earlier index {}",
                                    x.id, y.id, top, e.index
                                ),
                            );
                            break;
                        }
                    }
                }
            }
        }
    }
}
