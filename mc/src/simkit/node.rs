//! Assembly of one simulated node out of the *real* d-engine components, mirroring
//! `NodeBuilder::build` (d-engine-server/src/node/builder.rs) without gRPC and OS threads.

use std::sync::Arc;
use std::sync::Mutex;
use std::sync::atomic::AtomicUsize;
use std::sync::atomic::Ordering;

use d_engine_core::BufferedRaftLog;
use d_engine_core::ClientCmd;
use d_engine_core::CommitHandler;
use d_engine_core::CommitHandlerDependencies;
use d_engine_core::DefaultCommitHandler;
use d_engine_core::DefaultPurgeExecutor;
use d_engine_core::DefaultStateMachineHandler;
use d_engine_core::ElectionHandler;
use d_engine_core::follower_state::FollowerState;
use d_engine_core::InboundEvent;
use d_engine_core::InternalEvent;
use d_engine_core::LeaderInfo;
use d_engine_core::learner_state::LearnerState;
use d_engine_core::LogSizePolicy;
use d_engine_core::NewCommitData;
use d_engine_core::Raft;
use d_engine_core::RaftCoreHandlers;
use d_engine_core::RaftLog;
use d_engine_core::RaftNodeConfig;
use d_engine_core::RaftRole;
use d_engine_core::RaftStorageHandles;
use d_engine_core::ReplicationHandler;
use d_engine_core::SignalParams;
use d_engine_core::StateMachine;
use d_engine_core::StateMachineWorker;
use d_engine_core::TypeConfig;
use d_engine_proto::server::cluster::NodeMeta;
use d_engine_server::verif_exports::RaftMembership;
use d_engine_server::verif_exports::new_raft_membership;
use tokio::sync::mpsc;
use tokio::sync::watch;
use tokio::task::JoinHandle;

use super::net::Net;
use super::net::SimTransport;
use super::sm::Observer;
use super::sm::SimStateMachine;
use super::sm::SmImage;
use super::store::DiskImage;
use super::store::SimDisk;
use super::store::SimStorageEngine;

#[derive(Debug)]
pub struct SimT;

impl TypeConfig for SimT {
    type SE = SimStorageEngine;
    type SM = SimStateMachine;
    type R = BufferedRaftLog<Self>;
    type M = RaftMembership<Self>;
    type TR = SimTransport<Self>;
    type E = ElectionHandler<Self>;
    type REP = ReplicationHandler<Self>;
    type C = DefaultCommitHandler<Self>;
    type SMH = DefaultStateMachineHandler<Self>;
    type SNP = LogSizePolicy;
    type PE = DefaultPurgeExecutor<Self>;
}

/// What survives a node's death.
#[derive(Clone)]
pub struct NodeImage {
    pub disk: DiskImage,
    pub sm: Arc<Mutex<SmImage>>,
}

impl Default for NodeImage {
    fn default() -> Self {
        NodeImage { disk: DiskImage::default(), sm: Arc::new(Mutex::new(SmImage::default())) }
    }
}

pub struct SimNode {
    pub id: u32,
    pub incarnation: u32,
    pub raft: Raft<SimT>,
    pub disk: SimDisk,
    pub sm: Arc<SimStateMachine>,
    pub sm_image: Arc<Mutex<SmImage>>,
    pub observer: Arc<Observer>,
    pub membership: Arc<RaftMembership<SimT>>,
    pub smh: Arc<DefaultStateMachineHandler<SimT>>,
    pub raft_log: Arc<BufferedRaftLog<SimT>>,
    pub leader_rx: watch::Receiver<Option<LeaderInfo>>,
    pub event_tx: mpsc::Sender<InboundEvent>,
    pub cmd_tx: mpsc::Sender<ClientCmd>,
    pub internal_tx: mpsc::UnboundedSender<InternalEvent>,
    pub shutdown_tx: watch::Sender<()>,
    pub tasks: Vec<JoinHandle<()>>,
    pub config: Arc<RaftNodeConfig>,
    /// set when the Raft loop returned a fatal error
    pub fatal: bool,
    /// timed mode (views report timer/lease distances)
    pub timed: bool,
}

pub async fn assemble(
    id: u32,
    incarnation: u32,
    mut node_config: RaftNodeConfig,
    initial_cluster: Vec<NodeMeta>,
    image: NodeImage,
    observer: Arc<Observer>,
    net: Net,
) -> SimNode {
    node_config.cluster.node_id = id;
    node_config.cluster.initial_cluster = initial_cluster;

    let (new_commit_event_tx, new_commit_event_rx) = mpsc::unbounded_channel::<NewCommitData>();
    let (shutdown_tx, shutdown_rx) = watch::channel(());

    let sm = Arc::new(SimStateMachine::new(image.sm.clone(), observer.clone(), incarnation));
    sm.start().await.expect("sm start");

    let disk = SimDisk::new(image.disk);
    let storage_engine = Arc::new(SimStorageEngine::new(disk.clone()));

    let last_applied_index = sm.last_applied().index;
    let (internal_event_tx, internal_event_rx) = mpsc::unbounded_channel();

    let mut tasks: Vec<JoinHandle<()>> = Vec::new();

    let raft_log = {
        let (log, receiver) = BufferedRaftLog::<SimT>::new(
            id,
            node_config.raft.persistence.clone(),
            storage_engine.clone(),
        );
        let (log, io_fut) = log.verif_start_local(receiver, Some(internal_event_tx.clone()));
        tasks.push(tokio::spawn(io_fut));
        log
    };

    let transport = SimTransport::<SimT>::new(id, net);

    let snapshot_policy = LogSizePolicy::new(
        node_config.raft.snapshot.max_log_entries_before_snapshot,
        node_config.raft.snapshot.snapshot_cool_down_since_last_check,
    );

    let smh = Arc::new(DefaultStateMachineHandler::<SimT>::new(
        id,
        last_applied_index,
        sm.clone(),
        node_config.raft.snapshot.clone(),
        snapshot_policy,
        None,
        Arc::new(AtomicUsize::new(0)),
    ));

    let (membership_inner, _zombie_rx) = new_raft_membership::<SimT>(
        id,
        node_config.cluster.initial_cluster.clone(),
        node_config.clone(),
    );
    let membership = Arc::new(membership_inner);

    let purge_executor = DefaultPurgeExecutor::new(raft_log.clone());

    let (event_tx, event_rx) = mpsc::channel(10240);
    let (cmd_tx, cmd_rx) = mpsc::channel(node_config.raft.cmd_channel_capacity);

    let node_config_arc = Arc::new(node_config);

    let last_applied_opt = Some(sm.last_applied().index);
    let my_role = if node_config_arc.is_learner() {
        RaftRole::Learner(Box::new(LearnerState::new(id, node_config_arc.clone())))
    } else {
        RaftRole::Follower(Box::new(FollowerState::new(
            id,
            node_config_arc.clone(),
            raft_log.load_hard_state().expect("load hard state"),
            last_applied_opt,
        )))
    };
    let my_role_i32 = my_role.as_i32();
    let my_current_term = my_role.current_term();

    let mut raft = Raft::<SimT>::new(
        id,
        my_role,
        RaftStorageHandles::<SimT> { raft_log: raft_log.clone(), state_machine: sm.clone() },
        transport,
        RaftCoreHandlers::<SimT> {
            election_handler: ElectionHandler::new(id),
            replication_handler: ReplicationHandler::new(id),
            state_machine_handler: smh.clone(),
            purge_executor: Arc::new(purge_executor),
        },
        membership.clone(),
        SignalParams::new(
            internal_event_tx.clone(),
            internal_event_rx,
            event_tx.clone(),
            event_rx,
            cmd_tx.clone(),
            cmd_rx,
            shutdown_rx.clone(),
        ),
        node_config_arc.clone(),
    );
    raft.register_new_commit_listener(new_commit_event_tx);
    let (leader_tx, leader_rx) = watch::channel::<Option<LeaderInfo>>(None);
    raft.register_leader_change_listener(leader_tx);

    let (sm_apply_tx, sm_apply_rx) = mpsc::unbounded_channel();
    let sm_worker = StateMachineWorker::<SimT>::new(
        id,
        smh.clone(),
        sm_apply_rx,
        internal_event_tx.clone(),
        shutdown_rx.clone(),
    );
    tasks.push(tokio::spawn(async move {
        let _ = sm_worker.run().await;
    }));

    let deps = CommitHandlerDependencies::<SimT> {
        state_machine_handler: smh.clone(),
        raft_log: raft_log.clone(),
        membership: membership.clone(),
        internal_event_tx: internal_event_tx.clone(),
        sm_apply_tx,
        shutdown_signal: shutdown_rx.clone(),
        max_batch_size: node_config_arc.raft.batching.max_batch_size,
    };
    let mut commit_handler = DefaultCommitHandler::<SimT>::new(
        id,
        my_role_i32,
        my_current_term,
        deps,
        new_commit_event_rx,
    );
    tasks.push(tokio::spawn(async move {
        let _ = commit_handler.run().await;
    }));

    // Start of Raft::run(): re-arm an expired timer.
    raft.verif_rearm_timer_if_expired();

    SimNode {
        id,
        incarnation,
        raft,
        disk,
        sm,
        sm_image: image.sm,
        observer,
        membership,
        smh,
        raft_log,
        leader_rx,
        event_tx,
        cmd_tx,
        internal_tx: internal_event_tx,
        shutdown_tx,
        tasks,
        config: node_config_arc,
        fatal: false,
        timed: false,
    }
}

#[derive(Clone, Copy, Debug, PartialEq, Eq, Hash, serde::Serialize, serde::Deserialize)]
pub enum CrashMode {
    /// written-but-unsynced data survives
    Process,
    /// only synced data survives
    Power,
}

impl SimNode {
    /// Simulated crash: nothing that runs afterwards reaches the image.
    pub fn crash(self, mode: CrashMode) -> NodeImage {
        self.sm.alive.store(false, Ordering::SeqCst);
        self.sm.gate.close();
        let disk_image = match mode {
            CrashMode::Process => self.disk.written(),
            CrashMode::Power => self.disk.synced(),
        };
        self.disk.kill();
        for t in &self.tasks {
            t.abort();
        }
        let sm = self.sm_image.clone();
        drop(self);
        NodeImage { disk: disk_image, sm }
    }
}

impl Drop for SimNode {
    fn drop(&mut self) {
        for t in &self.tasks {
            t.abort();
        }
    }
}
