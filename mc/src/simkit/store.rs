//! In-memory `StorageEngine` with an explicit written / synced split.
//!
//! * `written`  — what a process crash leaves behind (page cache survived).
//! * `synced`   — what a power loss leaves behind (only what `flush()` made durable).
//! * `alive`    — flipped to false at a simulated crash so that anything a destructor or a
//!                still-running background future writes afterwards is discarded.
//!
//! Contract implemented (the "ideal" store, used so that consensus-level checks are not
//! polluted by engine-specific defects; the real engines are checked by `storemc`):
//! `last_index` = max(last entry index, purge boundary index); the purge boundary is persisted.

use std::collections::BTreeMap;
use std::ops::RangeInclusive;
use std::sync::Arc;
use std::sync::Mutex;

use async_trait::async_trait;
use d_engine_core::Error;
use d_engine_core::HardState;
use d_engine_core::LogStore;
use d_engine_core::MetaStore;
use d_engine_core::StorageEngine;
use d_engine_proto::common::Entry;
use d_engine_proto::common::LogId;

#[derive(Clone, Debug, Default)]
pub struct DiskImage {
    pub log: BTreeMap<u64, Entry>,
    pub purge: Option<LogId>,
    pub hard: Option<HardState>,
}

#[derive(Debug)]
pub struct DiskInner {
    pub written: DiskImage,
    pub synced: DiskImage,
    pub alive: bool,
    /// operation journal since the last sync (for torn/partial power-loss images)
    pub unsynced_ops: Vec<StoreOp>,
    /// count of operations, for observers
    pub op_count: u64,
    pub fail_next_sync: bool,
}

#[derive(Clone, Debug)]
pub enum StoreOp {
    Persist(Vec<Entry>),
    Truncate(u64),
    Replace(u64, Vec<Entry>),
    Purge(LogId),
    Reset,
    SaveHard(HardState),
}

impl DiskImage {
    pub fn apply(&mut self, op: &StoreOp) {
        match op {
            StoreOp::Persist(es) => {
                for e in es {
                    self.log.insert(e.index, e.clone());
                }
            }
            StoreOp::Truncate(from) => {
                self.log.split_off(from);
            }
            StoreOp::Replace(from, es) => {
                self.log.split_off(from);
                for e in es {
                    self.log.insert(e.index, e.clone());
                }
            }
            StoreOp::Purge(cut) => {
                let keep = self.log.split_off(&(cut.index + 1));
                self.log = keep;
                if self.purge.map(|p| p.index < cut.index).unwrap_or(true) {
                    self.purge = Some(*cut);
                }
            }
            StoreOp::Reset => {
                self.log.clear();
                self.purge = None;
            }
            StoreOp::SaveHard(h) => self.hard = Some(*h),
        }
    }
}

#[derive(Clone, Debug)]
pub struct SimDisk(pub Arc<Mutex<DiskInner>>);

impl SimDisk {
    pub fn new(image: DiskImage) -> Self {
        SimDisk(Arc::new(Mutex::new(DiskInner {
            written: image.clone(),
            synced: image,
            alive: true,
            unsynced_ops: Vec::new(),
            op_count: 0,
            fail_next_sync: false,
        })))
    }
    pub fn kill(&self) {
        self.0.lock().unwrap().alive = false;
    }
    pub fn written(&self) -> DiskImage {
        self.0.lock().unwrap().written.clone()
    }
    pub fn synced(&self) -> DiskImage {
        self.0.lock().unwrap().synced.clone()
    }
    pub fn unsynced_ops(&self) -> Vec<StoreOp> {
        self.0.lock().unwrap().unsynced_ops.clone()
    }
    fn op(&self, op: StoreOp) {
        let mut g = self.0.lock().unwrap();
        if !g.alive {
            return;
        }
        g.op_count += 1;
        g.written.apply(&op);
        g.unsynced_ops.push(op);
    }
    /// the next fsync of this disk fails once (nothing becomes durable)
    pub fn fail_next_sync(&self) {
        self.0.lock().unwrap().fail_next_sync = true;
    }
    fn sync(&self) -> Result<(), Error> {
        let mut g = self.0.lock().unwrap();
        if !g.alive {
            return Ok(());
        }
        if g.fail_next_sync {
            g.fail_next_sync = false;
            return Err(Error::System(d_engine_core::SystemError::Storage(d_engine_core::StorageError::IoError(
                std::io::Error::other("injected fsync failure"),
            ))));
        }
        g.synced = g.written.clone();
        g.unsynced_ops.clear();
        Ok(())
    }
}

#[derive(Debug)]
pub struct SimLogStore {
    pub disk: SimDisk,
}

#[derive(Debug)]
pub struct SimMetaStore {
    pub disk: SimDisk,
}

#[derive(Debug)]
pub struct SimStorageEngine {
    pub disk: SimDisk,
    log: Arc<SimLogStore>,
    meta: Arc<SimMetaStore>,
}

impl SimStorageEngine {
    pub fn new(disk: SimDisk) -> Self {
        SimStorageEngine {
            log: Arc::new(SimLogStore { disk: disk.clone() }),
            meta: Arc::new(SimMetaStore { disk: disk.clone() }),
            disk,
        }
    }
}

impl StorageEngine for SimStorageEngine {
    type LogStore = SimLogStore;
    type MetaStore = SimMetaStore;
    fn log_store(&self) -> Arc<SimLogStore> {
        self.log.clone()
    }
    fn meta_store(&self) -> Arc<SimMetaStore> {
        self.meta.clone()
    }
}

#[async_trait]
impl LogStore for SimLogStore {
    async fn persist_entries(&self, entries: Vec<Entry>) -> Result<(), Error> {
        self.disk.op(StoreOp::Persist(entries));
        Ok(())
    }
    async fn entry(&self, index: u64) -> Result<Option<Entry>, Error> {
        Ok(self.disk.0.lock().unwrap().written.log.get(&index).cloned())
    }
    fn get_entries(&self, range: RangeInclusive<u64>) -> Result<Vec<Entry>, Error> {
        Ok(self.disk.0.lock().unwrap().written.log.range(range).map(|(_, e)| e.clone()).collect())
    }
    async fn purge(&self, cutoff_index: LogId) -> Result<(), Error> {
        self.disk.op(StoreOp::Purge(cutoff_index));
        Ok(())
    }
    async fn truncate(&self, from_index: u64) -> Result<(), Error> {
        self.disk.op(StoreOp::Truncate(from_index));
        Ok(())
    }
    async fn replace_range(&self, from_index: u64, new_entries: Vec<Entry>) -> Result<(), Error> {
        self.disk.op(StoreOp::Replace(from_index, new_entries));
        Ok(())
    }
    fn is_write_durable(&self) -> bool {
        false
    }
    fn flush(&self) -> Result<(), Error> {
        self.disk.sync()
    }
    async fn flush_async(&self) -> Result<(), Error> {
        self.disk.sync()
    }
    async fn reset(&self) -> Result<(), Error> {
        self.disk.op(StoreOp::Reset);
        Ok(())
    }
    fn last_index(&self) -> u64 {
        let g = self.disk.0.lock().unwrap();
        let last = g.written.log.keys().next_back().copied().unwrap_or(0);
        last.max(g.written.purge.map(|p| p.index).unwrap_or(0))
    }
    fn load_purge_boundary(&self) -> Result<Option<LogId>, Error> {
        Ok(self.disk.0.lock().unwrap().written.purge)
    }
}

#[async_trait]
impl MetaStore for SimMetaStore {
    fn save_hard_state(&self, state: &HardState) -> Result<(), Error> {
        self.disk.op(StoreOp::SaveHard(*state));
        Ok(())
    }
    fn load_hard_state(&self) -> Result<Option<HardState>, Error> {
        Ok(self.disk.0.lock().unwrap().written.hard)
    }
    fn flush(&self) -> Result<(), Error> {
        self.disk.sync()
    }
    async fn flush_async(&self) -> Result<(), Error> {
        self.disk.sync()
    }
}
