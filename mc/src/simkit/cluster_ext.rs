//! Global (cross-node) checks, outcome summaries and the events that involve several nodes.

use super::cluster::Cluster;
use super::cluster::Event;
use super::cluster::NodeView;
use super::cluster::Res;
use super::cluster::RoleKind;
use super::cluster::Slot;
use super::cluster::entry_view;
use super::oracle::check_pairs;

pub async fn apply_any(c: &mut Cluster, ev: &Event) -> Res<()> {
    c.apply(ev).await?;
    if let Event::AssertRecovered(steps) = ev {
        assert_recovered(c, *steps);
    }
    Ok(())
}

fn assert_recovered(c: &mut Cluster, max_steps: u32) {
    use super::cluster::ClientOutcome;
    use super::cluster::Op;
    if c.stuck.is_some() {
        return;
    }
    let probe = c.clients.iter().rposition(|x| matches!(&x.write, Some(Op::Put(k, v)) if k == "recovery" && v == "probe"));
    let why = match probe {
        None => Some("no leader accepted a write".to_string()),
        Some(w) if !matches!(c.clients[w].outcome, ClientOutcome::WriteOk(_)) => {
            Some(format!("the write issued after the faults stopped was not acknowledged ({:?})", c.clients[w].outcome))
        }
        Some(_) => recovered(c),
    };
    if let Some(why) = why {
        let views: Vec<String> = c.last_views.values().map(|v| format!("n{}:{:?} t{} c{} a{} last{}", v.id, v.role, v.term, v.commit, v.applied, v.last)).collect();
        let text = format!("after the faults stopped (all nodes up, every message delivered in order, {} fair steps incl. timer expiries) the cluster did not recover: {why}; {}", max_steps, views.join(" | "));
        c.oracle.violate("C32", "recover".into(), text.clone());
        // with snapshots enabled the same outcome means: a peer behind the purge boundary was not
        // brought up to date by log or by snapshot
        if c.opts.snapshot_enable {
            c.oracle.violate("C33", "recover".into(), text);
        }
    }
}

/// Views of all live nodes plus pseudo-views of the durable images of dead nodes.
pub async fn all_views(c: &Cluster) -> Vec<NodeView> {
    let mut views = Vec::new();
    for (id, s) in c.slots.iter() {
        match s {
            Slot::Up(n) => views.push(n.view().await),
            // blocked in its vote broadcast: log and commit index are those of its last view
            Slot::Busy => {
                if let Some(v) = c.last_views.get(id) {
                    views.push(v.clone());
                }
            }
            _ => {}
        }
    }
    views
}

pub async fn check_global(c: &mut Cluster) {
    let views = all_views(c).await;
    check_pairs(&mut c.oracle, &views);
    check_clients(c);

    // ---- C31: only nodes that really were leader in the reported term are announced
    let pend = std::mem::take(&mut c.oracle.pending_notifications);
    for (node, lid, term) in pend {
        let really = c.oracle.leader_first_seen.contains(&(lid, term)) || c.oracle.election_votes.contains_key(&(lid, term));
        if !really {
            c.oracle.violate(
                "C31",
                format!("fake{lid}t{term}"),
                format!("node {node} was notified that node {lid} leads term {term}, but node {lid} never won an election for term {term}"),
            );
        }
    }

    // ---- C27: a join is answered successfully only once the node's AddNode entry is committed;
    //      a node counts itself a voter only after a committed promotion names it
    let joins = c.oracle.joins.clone();
    for (node, leader, success) in joins {
        if !success {
            continue;
        }
        let committed_add = views.iter().any(|v| {
            v.configs.iter().any(|(idx, d)| *idx <= v.commit && *d == format!("AddNode({node})"))
        });
        if !committed_add {
            c.oracle.violate(
                "C27",
                format!("join{node}"),
                format!("leader {leader} answered node {node}'s join successfully although no committed AddNode({node}) entry exists"),
            );
        }
    }
    let initial_voters = c.opts.voters.clone();
    for v in &views {
        let self_meta = v.members.iter().find(|(id, _, _)| *id == v.id);
        let self_is_voter = self_meta
            .map(|(_, role, status)| {
                *role != d_engine_proto::common::NodeRole::Learner as i32
                    && *status == d_engine_proto::common::NodeStatus::Active as i32
            })
            .unwrap_or(false);
        if (self_is_voter || matches!(v.role, RoleKind::Follower | RoleKind::Candidate | RoleKind::Leader))
            && !initial_voters.contains(&v.id)
        {
            let promoted = views.iter().any(|w| {
                w.configs.iter().any(|(idx, d)| {
                    *idx <= w.commit
                        && (d.starts_with("BatchPromote(") || d.starts_with("Promote("))
                        && d.trim_start_matches("BatchPromote(")
                            .trim_start_matches("Promote(")
                            .trim_matches(|ch| ch == '[' || ch == ']' || ch == ')' || ch == '(')
                            .split(',')
                            .any(|x| x.trim() == v.id.to_string())
                })
            });
            if !promoted {
                c.oracle.violate(
                    "C27",
                    format!("voter{}", v.id),
                    format!(
                        "node {} acts as a voter ({:?}) although no committed promotion names it",
                        v.id, v.role
                    ),
                );
            }
        }
    }

    // ---- C09: when a leader's commit index is N, a majority of the voters it currently
    //      recognises (itself included) hold its entry N, and entry N is of its term.
    let mut images: Vec<(u32, Vec<super::cluster::LogEnt>)> = Vec::new();
    for (id, s) in c.slots.iter() {
        match s {
            Slot::Up(_) | Slot::Busy => {
                if let Some(v) = views.iter().find(|v| v.id == *id) {
                    images.push((*id, v.log.clone()));
                }
            }
            Slot::Down(img) => {
                images.push((*id, img.disk.log.values().map(entry_view).collect()));
            }
            _ => {}
        }
    }
    for v in views.iter().filter(|v| v.role == RoleKind::Leader) {
        let n = v.commit;
        let checked = c.oracle.c09_checked.get(&(v.id, v.term)).copied().unwrap_or(0);
        if n == 0 || n <= checked {
            continue;
        }
        c.oracle.c09_checked.insert((v.id, v.term), n);
        let Some(e) = v.log.iter().find(|e| e.index == n) else { continue };
        if e.term != v.term {
            c.oracle.violate(
                "C09",
                format!("term{}i{}", v.id, n),
                format!(
                    "leader {} of term {} advanced its commit index to {} whose entry is of term {}",
                    v.id, v.term, n, e.term
                ),
            );
        }
        // voters as the leader sees them: Active members (+ itself)
        let voters: Vec<u32> = v
            .members
            .iter()
            .filter(|(id, _role, status)| *status == d_engine_proto::common::NodeStatus::Active as i32 || *id == v.id)
            .map(|(id, _, _)| *id)
            .collect();
        let holder_set: std::collections::BTreeSet<u32> = voters
            .iter()
            .filter(|id| {
                images
                    .iter()
                    .find(|(i, _)| i == *id)
                    .map(|(_, log)| log.iter().any(|x| x.index == n && x.term == e.term && x.payload == e.payload))
                    .unwrap_or(false)
            })
            .copied()
            .collect();
        let holders = holder_set.len();
        // C26: the quorum this commit actually rested on
        c.oracle.on_commit_quorum(v.id, v.term, holder_set, voters.iter().copied().collect());
        if holders * 2 <= voters.len() {
            c.oracle.violate(
                "C09",
                format!("maj{}t{}i{}", v.id, v.term, n),
                format!(
                    "leader {} (term {}) committed index {} while only {} of {} voters hold that entry",
                    v.id,
                    v.term,
                    n,
                    holders,
                    voters.len()
                ),
            );
        }
    }
}

/// A short canonical description of where a path ended (for distinct-outcome counting).
pub fn outcome_key(c: &Cluster) -> String {
    let mut s = String::new();
    for (id, v) in &c.last_views {
        let up = matches!(c.slots.get(id), Some(Slot::Up(_)));
        s.push_str(&format!(
            "{}:{}{:?}t{}c{}l{}a{};",
            id,
            if up { "" } else { "x" },
            v.role,
            v.term,
            v.commit,
            v.last,
            v.applied
        ));
    }
    s
}

fn op_matches(op: &super::cluster::Op, cmd: &d_engine_core::Command) -> bool {
    use super::cluster::Op;
    use d_engine_core::Command;
    match (op, cmd) {
        (Op::Put(k, v), Command::Insert { key, value, ttl_secs: None }) => {
            key.as_ref() == k.as_bytes() && value.as_ref() == v.as_bytes()
        }
        (Op::PutTtl(k, v, t), Command::Insert { key, value, ttl_secs: Some(tt) }) => {
            key.as_ref() == k.as_bytes() && value.as_ref() == v.as_bytes() && tt == t
        }
        (Op::Del(k), Command::Delete { key }) => key.as_ref() == k.as_bytes(),
        (Op::Cas(k, e, v), Command::CompareAndSwap { key, expected, value }) => {
            key.as_ref() == k.as_bytes()
                && value.as_ref() == v.as_bytes()
                && expected.as_ref().map(|b| b.as_ref()) == e.as_ref().map(|s| s.as_bytes())
        }
        _ => false,
    }
}

fn op_value(op: &super::cluster::Op) -> Option<&str> {
    use super::cluster::Op;
    match op {
        Op::Put(_, v) | Op::PutTtl(_, v, _) | Op::Cas(_, _, v) => Some(v.as_str()),
        Op::Del(_) => None,
    }
}

/// Client-visible oracles (C14, C29), evaluated after every event.
pub fn check_clients(c: &mut Cluster) {
    use super::cluster::ClientOutcome;
    let mut viol: Vec<(String, String, String)> = vec![];
    for cl in &c.clients {
        let Some(op) = &cl.write else { continue };
        match &cl.outcome {
            ClientOutcome::Err(e) => {
                // C14: a write the node *rejected* is never applied anywhere
                let rejected = e.starts_with("FailedPrecondition:Not leader")
                    || e.starts_with("InvalidArgument")
                    || e.starts_with("ResourceExhausted")
                    || e == "NotLeader";
                if rejected {
                    if let Some(v) = op_value(op) {
                        if c.oracle.applied_values.contains(v) {
                            viol.push((
                                "C14".into(),
                                format!("rej{}", cl.id),
                                format!(
                                    "write {:?} was rejected by node {} with {:?} but its value was applied",
                                    op, cl.node, e
                                ),
                            ));
                        }
                    }
                }
            }
            ClientOutcome::WriteOk(flag) => {
                // C29: success only after the request's own entry is committed and applied on
                // the leader that answered, and the flag is the applied outcome
                let obs = &c.observers[&cl.node];
                let recs = obs.applies.lock().unwrap();
                let mut found: Option<(u64, bool)> = None;
                for r in recs.iter() {
                    for (e, ok) in r.entries.iter().zip(r.results.iter()) {
                        if found.is_none() && op_matches(op, &e.command) {
                            found = Some((e.index, *ok));
                        }
                    }
                }
                match found {
                    None => viol.push((
                        "C29".into(),
                        format!("noapply{}", cl.id),
                        format!(
                            "write {:?} was acknowledged by node {} before that node applied it",
                            op, cl.node
                        ),
                    )),
                    Some((idx, ok)) => {
                        if ok != *flag {
                            viol.push((
                                "C29".into(),
                                format!("flag{}", cl.id),
                                format!(
                                    "write {:?} (entry {}) was answered succeeded={} but applied with succeeded={}",
                                    op, idx, flag, ok
                                ),
                            ));
                        }
                        if let Some(v) = c.last_views.get(&cl.node) {
                            if matches!(c.slots.get(&cl.node), Some(Slot::Up(_))) && v.commit < idx {
                                viol.push((
                                    "C29".into(),
                                    format!("commit{}", cl.id),
                                    format!(
                                        "write {:?} (entry {}) was acknowledged while node {}'s commit index is {}",
                                        op, idx, cl.node, v.commit
                                    ),
                                ));
                            }
                        }
                    }
                }
            }
            _ => {}
        }
    }
    // ---- C30 (timed mode): every request a live node accepted is answered by its deadline
    //      (deadlines are checked at tick granularity: one heartbeat interval of slack, twice
    //      for requests that arrived just after a tick)
    if c.opts.timed {
        let bound = c.opts.raft_timeout_ms + 2 * c.opts.heartbeat_ms + 1_000;
        for cl in &c.clients {
            let live = matches!(c.slots.get(&cl.node), Some(Slot::Up(_)) | Some(Slot::Busy));
            match &cl.outcome {
                ClientOutcome::Pending if live => {
                    let age = c.clock_ms.saturating_sub(cl.invoked_ms);
                    if age > bound {
                        viol.push((
                            "C30".into(),
                            format!("pending{}", cl.id),
                            format!(
                                "request {:?}{:?} accepted by node {} (then {:?} of term {}) is still unanswered {} ms after it was made (deadline {} ms + tick slack)",
                                cl.write, cl.read, cl.node, cl.role_at_invoke, cl.term_at_invoke, age / 1000 * 1000, c.opts.raft_timeout_ms
                            ),
                        ));
                    }
                }
                // a response that arrives only after the deadline (plus tick slack) is late
                ClientOutcome::Pending => {}
                _ if cl.resolved_at_event == Some(c.events_applied) => {
                    let age = c.clock_ms.saturating_sub(cl.invoked_ms);
                    if age > bound {
                        viol.push((
                            "C30".into(),
                            format!("late{}", cl.id),
                            format!(
                                "request {:?}{:?} accepted by node {} (then {:?} of term {}) was answered only {} ms after it was made (deadline {} ms + tick slack)",
                                cl.write, cl.read, cl.node, cl.role_at_invoke, cl.term_at_invoke, age / 1000 * 1000, c.opts.raft_timeout_ms
                            ),
                        ));
                    }
                }
                _ => {}
            }
        }
    }
    // ---- C12: a lease read is answered from local state only while no other node has won an
    //      election for a later term (the lease window must have ended before that is possible)
    for cl in &c.clients {
        let Some((key, pol)) = &cl.read else { continue };
        if *pol != super::cluster::RPolicy::Lease {
            continue;
        }
        if let ClientOutcome::ReadOk(val) = &cl.outcome {
            if cl.resolved_at_event != Some(c.events_applied) {
                continue;
            }
            let term = c.last_views.get(&cl.node).map(|v| v.term).unwrap_or(cl.term_at_invoke).min(cl.term_at_invoke.max(1));
            let later: Vec<(u32, u64)> = c
                .oracle
                .leader_seen_at
                .iter()
                .filter(|((m, t), at)| *m != cl.node && *t > term && **at <= c.events_applied)
                .map(|((m, t), _)| (*m, *t))
                .collect();
            if !later.is_empty() {
                let cause = sticky_vote_cause(c, cl.node, term).unwrap_or_default();
                viol.push((
                    "C12".into(),
                    format!("lease{}", cl.id),
                    format!(
                        "node {} (term {}) answered a lease read of {:?} = {:?} from local state although {:?} had already become leader of a later term{}",
                        cl.node, term, key, val, later, cause
                    ),
                ));
            }
            // a lease read needs a VOTER majority that acknowledged the leader within the lease
            // window (timed runs): learners do not count
            if c.opts.timed {
                if let Some(v) = c.last_views.get(&cl.node) {
                    let learner = d_engine_proto::common::NodeRole::Learner as i32;
                    let active = d_engine_proto::common::NodeStatus::Active as i32;
                    let voters: Vec<u32> = v.members.iter().filter(|(id, role, st)| *id != cl.node && *role != learner && *st == active).map(|(id, _, _)| *id).collect();
                    let fresh = |id: &u32| c.last_ack_ms.get(&(cl.node, *id)).map(|a| c.clock_ms.saturating_sub(*a) <= c.opts.lease_ms).unwrap_or(false);
                    let fresh_voters = voters.iter().filter(|id| fresh(id)).count();
                    let total = voters.len() + 1;
                    if (fresh_voters + 1) * 2 <= total {
                        let learners_fresh: Vec<u32> = v.members.iter().filter(|(id, role, _)| *id != cl.node && *role == learner && fresh(id)).map(|(id, _, _)| *id).collect();
                        let text = format!(
                            "node {} answered a lease read from local state although only {} of its {} other voters acknowledged it within the lease window ({} ms){}",
                            cl.node, fresh_voters, voters.len(), c.opts.lease_ms,
                            if learners_fresh.is_empty() { String::new() } else { format!("; learner(s) {learners_fresh:?} did - a learner's acknowledgement must not count toward the lease quorum") }
                        );
                        viol.push(("C12".into(), format!("leaseq{}", cl.id), text.clone()));
                        if !learners_fresh.is_empty() {
                            viol.push(("C27".into(), format!("leaseq{}", cl.id), text));
                        }
                    }
                }
            }
            let is_leader_now = c.last_views.get(&cl.node).map(|v| v.role == RoleKind::Leader).unwrap_or(false);
            if !is_leader_now && cl.role_at_invoke != RoleKind::Leader {
                viol.push((
                    "C12".into(),
                    format!("leasenl{}", cl.id),
                    format!("node {} answered a lease read from local state although it is not a leader", cl.node),
                ));
            }
        }
    }
    for (p, k, w) in viol {
        c.oracle.violate(&p, k, w);
    }
    check_linearizable_history(c);
}

/// Root-cause tag shared by C10/C11/C12: a later-term leader exists that was elected with the
/// vote of a node other than itself and `node` - i.e. a follower granted its vote although it
/// was still following `node` (d-engine has no "ignore vote requests while a leader is alive"
/// rule, which lease-based reads rely on).
fn sticky_vote_cause(c: &Cluster, node: u32, term: u64) -> Option<String> {
    for ((m, t), (quorum, _asked)) in c.oracle.election_votes.iter() {
        if *m != node && *t > term && c.oracle.leader_seen_at.contains_key(&(*m, *t)) {
            // a voter (other than the two leaders) that granted although it had acknowledged
            // `node` within the lease window before the new leader appeared
            let elected_ms = c.oracle.leader_seen_ms.get(&(*m, *t)).copied().unwrap_or(c.clock_ms);
            let followers: Vec<u32> = quorum
                .iter()
                .copied()
                .filter(|v| *v != *m && *v != node)
                .filter(|v| !c.opts.timed || c.last_ack_ms.get(&(node, *v)).map(|a| elected_ms.saturating_sub(*a) <= c.opts.lease_ms).unwrap_or(false))
                .collect();
            if !followers.is_empty() {
                return Some(format!(
                    " (node {m} won term {t} with the vote of {followers:?}, which granted it while node {node}'s lease on them was still running: votes are granted without regard to a live leader)"
                ));
            }
        }
    }
    None
}

#[derive(Clone, Debug)]
struct HOp {
    write: Option<Option<String>>, // Some(Some(v)) put v, Some(None) delete
    read: Option<Option<String>>,  // observed value
    invoke: usize,
    response: Option<usize>,
    /// writes whose outcome is unknown may or may not have taken effect
    optional: bool,
}

/// Wing-Gong style search: is there a total order of the operations, consistent with real
/// time (a responded op precedes every op invoked after its response), in which every read
/// returns the latest preceding write (register semantics, initially absent)?
fn linearizable(ops: &[HOp]) -> bool {
    fn rec(ops: &[HOp], done: &mut Vec<bool>, value: &Option<String>, placed: usize) -> bool {
        if placed == ops.len() {
            return true;
        }
        // earliest response among the not-yet-placed, non-optional-skipped ops bounds who may go first
        let min_resp = ops
            .iter()
            .enumerate()
            .filter(|(i, _)| !done[*i])
            .filter_map(|(_, o)| o.response)
            .min()
            .unwrap_or(usize::MAX);
        for i in 0..ops.len() {
            if done[i] {
                continue;
            }
            let o = &ops[i];
            // o may be linearized next only if it was invoked before every pending response
            if o.invoke > min_resp {
                continue;
            }
            if let Some(w) = &o.write {
                done[i] = true;
                if rec(ops, done, w, placed + 1) {
                    return true;
                }
                // an optional write may also never take effect (only if it has no response)
                if o.optional && o.response.is_none() && rec(ops, done, value, placed + 1) {
                    return true;
                }
                done[i] = false;
            } else if let Some(r) = &o.read {
                if r == value {
                    done[i] = true;
                    if rec(ops, done, value, placed + 1) {
                        return true;
                    }
                    done[i] = false;
                }
            }
        }
        false
    }
    let mut done = vec![false; ops.len()];
    rec(ops, &mut done, &None, 0)
}

/// C10 / C11: the client-visible history of key "a" (writes with unique values, reads served
/// under the linearizable policy) must be linearizable.
pub fn check_linearizable_history(c: &mut Cluster) {
    use super::cluster::ClientOutcome;
    use super::cluster::Op;
    use super::cluster::RPolicy;
    // only when something resolved in this event
    if !c.clients.iter().any(|cl| cl.resolved_at_event == Some(c.events_applied) && cl.read.is_some()) {
        return;
    }
    let key = "a";
    let mut ops: Vec<HOp> = vec![];
    for cl in &c.clients {
        if let Some(op) = &cl.write {
            let (k, w) = match op {
                Op::Put(k, v) | Op::PutTtl(k, v, _) => (k, Some(v.clone())),
                Op::Del(k) => (k, None),
                Op::Cas(..) => continue,
            };
            if k != key {
                continue;
            }
            match &cl.outcome {
                ClientOutcome::WriteOk(_) => ops.push(HOp { write: Some(w), read: None, invoke: cl.invoked_at_event, response: cl.resolved_at_event, optional: false }),
                ClientOutcome::Err(e)
                    if e.starts_with("FailedPrecondition:Not leader")
                        || e == "NotLeader"
                        || e.starts_with("InvalidArgument")
                        || e.starts_with("ResourceExhausted") => {}
                // pending, timed out, channel closed, other errors: may or may not take effect
                _ => ops.push(HOp { write: Some(w), read: None, invoke: cl.invoked_at_event, response: None, optional: true }),
            }
        } else if let Some((k, pol)) = &cl.read {
            if k != key {
                continue;
            }
            let effective_linearizable = match pol {
                RPolicy::Linearizable => true,
                RPolicy::Default => c.opts.default_policy == RPolicy::Linearizable,
                _ => false,
            };
            if !effective_linearizable {
                continue;
            }
            if let ClientOutcome::ReadOk(v) = &cl.outcome {
                ops.push(HOp { write: None, read: Some(v.clone()), invoke: cl.invoked_at_event, response: cl.resolved_at_event, optional: false });
            }
        }
    }
    if ops.iter().all(|o| o.read.is_none()) || ops.len() > 10 {
        return;
    }
    if !linearizable(&ops) {
        let desc: Vec<String> = ops
            .iter()
            .map(|o| match (&o.write, &o.read) {
                (Some(w), _) => format!("write({:?})[{}..{}]{}", w, o.invoke, o.response.map(|r| r.to_string()).unwrap_or("?".into()), if o.optional { "?" } else { "" }),
                (_, Some(r)) => format!("read->{:?}[{}..{}]", r, o.invoke, o.response.map(|r| r.to_string()).unwrap_or("?".into())),
                _ => String::new(),
            })
            .collect();
        let key = format!("lin{}", c.clients.iter().filter(|x| x.read.is_some()).count());
        // was one of the reads served by a leader that had already been superseded?
        let mut cause = String::new();
        for cl in &c.clients {
            if cl.read.is_some() && matches!(cl.outcome, ClientOutcome::ReadOk(_)) {
                if let Some(x) = sticky_vote_cause(c, cl.node, cl.term_at_invoke) {
                    cause = format!("; a read was served by node {} under its lease{}", cl.node, x);
                    break;
                }
            }
        }
        let text = format!("the client history of key 'a' is not linearizable: {}{}", desc.join(", "), cause);
        c.oracle.violate("C11", key.clone(), text.clone());
        c.oracle.violate("C10", key, text);
    }
}


/// What the explorer appends at the end of a path. Returns the events it applied (ordinary
/// events, so a replay file reproduces the closure too).
pub async fn closure(c: &mut Cluster, mode: super::menu::Closure) -> Res<Vec<Event>> {
    use super::cluster::ClientOutcome;
    use super::cluster::VoteAns;
    use super::menu::Closure;
    let mut done: Vec<Event> = vec![];
    match mode {
        Closure::None => {}
        Closure::TimeOnly(max_ticks) => {
            let mut ticks = 0;
            for _ in 0..(max_ticks * 4) {
                if c.stuck.is_some() || !c.clients.iter().any(|x| x.outcome == ClientOutcome::Pending) {
                    break;
                }
                let ev = if let Some(el) = &c.election {
                    Event::Vote(el.peers[el.answered.len()], VoteAns::Lose)
                } else {
                    if ticks >= max_ticks || c.up_ids().is_empty() {
                        break;
                    }
                    ticks += 1;
                    Event::Tick
                };
                c.apply(&ev).await?;
                check_global(c).await;
                done.push(ev);
            }
        }
        Closure::Recover(max_steps) => {
            // faults stop: every node that is down comes back
            let down: Vec<u32> = c.slots.iter().filter(|(_, s)| matches!(s, Slot::Down(_))).map(|(i, _)| *i).collect();
            // an election that is in flight when the faults stop is answered first (the harness
            // carries one election at a time and cannot start nodes in the middle of it)
            for _ in 0..8 {
                let Some(el) = &c.election else { break };
                if c.stuck.is_some() {
                    break;
                }
                let ev = Event::Vote(el.peers[el.answered.len()], VoteAns::Deliver);
                c.apply(&ev).await?;
                check_global(c).await;
                done.push(ev);
            }
            if c.election.is_none() && c.stuck.is_none() {
                for id in down {
                    let ev = Event::Restart(id);
                    c.apply(&ev).await?;
                    check_global(c).await;
                    done.push(ev);
                }
            }
            let mut wrote = false;
            let mut write_id: Option<usize> = None;
            let mut timeouts = 0usize;
            for _ in 0..max_steps {
                if c.stuck.is_some() {
                    break;
                }
                // finished? leader exists, the probe write is acknowledged, everybody applied
                if let Some(w) = write_id {
                    if matches!(c.clients[w].outcome, ClientOutcome::WriteOk(_)) && recovered(c).is_none() {
                        break;
                    }
                }
                let ev = if let Some(el) = &c.election {
                    Event::Vote(el.peers[el.answered.len()], VoteAns::Deliver)
                } else if let Some(ev) = next_fair_delivery(c) {
                    ev
                } else if let Some((from, to)) = c.pushes().into_iter().next() {
                    Event::PushDeliver(from, to)
                } else if let Some(id) = c.up_ids().into_iter().find(|i| c.node(*i).map(|n| n.sm.waiting.load(std::sync::atomic::Ordering::SeqCst) > 0).unwrap_or(false)) {
                    Event::ApplyRelease(id)
                } else {
                    let leader = c.last_views.values().find(|v| v.role == RoleKind::Leader && matches!(c.slots.get(&v.id), Some(Slot::Up(_)))).map(|v| v.id);
                    match (leader, wrote) {
                        (Some(l), false) if c.last_views.get(&l).map(|v| v.noop.is_some()).unwrap_or(false) => {
                            wrote = true;
                            write_id = Some(c.clients.len());
                            Event::ClientWrite(l, super::cluster::Op::Put("recovery".into(), "probe".into()))
                        }
                        // timed runs with a live leader: the next timer fires. Untimed runs: the
                        // leader's heartbeat timer. Without a live leader (both modes): an
                        // election timer - see below for which one
                        (Some(_), _) if c.opts.timed => Event::Tick,
                        (Some(l), _) => Event::Heartbeat(l),
                        (None, _) => {
                            // election timers are randomised in reality, so any live node may
                            // be the next one to time out. (Letting the timers fire in the fixed
                            // order of the simulation's per-node offsets instead is not a fair
                            // schedule: a candidate with a stale log that always fires first
                            // keeps out-bidding the others for ever - a candidate that refuses a
                            // higher-term vote request keeps its own term, and a follower needs
                            // two expiries to ask for votes - although with random timeouts the
                            // better log gets its two turns in a row soon enough.)
                            let cands: Vec<u32> = c
                                .last_views
                                .values()
                                .filter(|v| matches!(c.slots.get(&v.id), Some(Slot::Up(_))) && matches!(v.role, RoleKind::Follower | RoleKind::Candidate) && !v.fatal)
                                .map(|v| v.id)
                                .collect();
                            if cands.is_empty() {
                                break;
                            }
                            // a candidate's second expiry starts its election: stay with it
                            // the canonical recovery schedule lets the node with the most
                            // up-to-date log time out first (ties: lowest id); a candidate's
                            // second expiry starts its election, so stay with it
                            let _ = timeouts;
                            let best = |id: &u32| c.last_views.get(id).map(|v| (v.last_log_id.map(|l| (l.1, l.0)).unwrap_or((0, 0)), std::cmp::Reverse(*id))).unwrap();
                            let chosen = *cands.iter().max_by_key(|id| best(id)).unwrap();
                            timeouts += 1;
                            Event::Timeout(chosen)
                        }
                    }
                };
                c.apply(&ev).await?;
                check_global(c).await;
                done.push(ev);
            }
            if c.stuck.is_none() {
                let ev = Event::AssertRecovered(max_steps as u32);
                apply_any(c, &ev).await?;
                done.push(ev);
            }
        }
    }
    Ok(done)
}

/// first deliverable message in (link, request-before-response) order
fn next_fair_delivery(c: &Cluster) -> Option<Event> {
    for (l, nreq, nresp, dead) in c.links() {
        let target_up = matches!(c.slots.get(&l.to), Some(Slot::Up(_)));
        if nreq > 0 {
            if dead && !target_up {
                return Some(Event::DropReq(l));
            }
            if target_up {
                return Some(Event::Deliver(l, 1));
            }
        }
        if nresp > 0 && !dead {
            return Some(Event::DeliverResp(l));
        }
    }
    None
}

/// None when a leader exists and every live voter has applied up to the leader's commit index
fn recovered(c: &Cluster) -> Option<String> {
    let leaders: Vec<&NodeView> = c
        .last_views
        .values()
        .filter(|v| v.role == RoleKind::Leader && matches!(c.slots.get(&v.id), Some(Slot::Up(_))))
        .collect();
    let Some(l) = leaders.iter().max_by_key(|v| v.term) else { return Some("no leader exists".into()) };
    for v in c.last_views.values() {
        if !matches!(c.slots.get(&v.id), Some(Slot::Up(_))) || v.role == RoleKind::Learner {
            continue;
        }
        if v.applied < l.commit {
            return Some(format!("node {} has applied {} of {} committed entries", v.id, v.applied, l.commit));
        }
    }
    None
}
