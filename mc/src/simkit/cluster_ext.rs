//! Global (cross-node) checks, outcome summaries and the events that involve several nodes.

use super::cluster::Cluster;
use super::cluster::Event;
use super::cluster::NodeView;
use super::cluster::Res;
use super::cluster::RoleKind;
use super::cluster::Slot;
use super::cluster::entry_view;
use super::oracle::check_pairs;

pub async fn apply_any(c: &mut Cluster, ev: &Event) -> Res<()> {
    c.apply(ev).await
}

/// Views of all live nodes plus pseudo-views of the durable images of dead nodes.
pub async fn all_views(c: &Cluster) -> Vec<NodeView> {
    let mut views = Vec::new();
    for (_, s) in c.slots.iter() {
        if let Slot::Up(n) = s {
            views.push(n.view().await);
        }
    }
    views
}

pub async fn check_global(c: &mut Cluster) {
    let views = all_views(c).await;
    check_pairs(&mut c.oracle, &views);

    // ---- C09: when a leader's commit index is N, a majority of the voters it currently
    //      recognises (itself included) hold its entry N, and entry N is of its term.
    let mut images: Vec<(u32, Vec<super::cluster::LogEnt>)> = Vec::new();
    for (id, s) in c.slots.iter() {
        match s {
            Slot::Up(n) => {
                let v = views.iter().find(|v| v.id == n.id).unwrap();
                images.push((*id, v.log.clone()));
            }
            Slot::Down(img) => {
                images.push((*id, img.disk.log.values().map(entry_view).collect()));
            }
            _ => {}
        }
    }
    for v in views.iter().filter(|v| v.role == RoleKind::Leader) {
        let n = v.commit;
        let checked = c.oracle.c09_checked.get(&(v.id, v.term)).copied().unwrap_or(0);
        if n == 0 || n <= checked {
            continue;
        }
        c.oracle.c09_checked.insert((v.id, v.term), n);
        let Some(e) = v.log.iter().find(|e| e.index == n) else { continue };
        if e.term != v.term {
            c.oracle.violate(
                "C09",
                format!("term{}i{}", v.id, n),
                format!(
                    "leader {} of term {} advanced its commit index to {} whose entry is of term {}",
                    v.id, v.term, n, e.term
                ),
            );
        }
        // voters as the leader sees them: Active members (+ itself)
        let voters: Vec<u32> = v
            .members
            .iter()
            .filter(|(id, _role, status)| *status == d_engine_proto::common::NodeStatus::Active as i32 || *id == v.id)
            .map(|(id, _, _)| *id)
            .collect();
        let holders = voters
            .iter()
            .filter(|id| {
                images
                    .iter()
                    .find(|(i, _)| i == *id)
                    .map(|(_, log)| log.iter().any(|x| x.index == n && x.term == e.term && x.payload == e.payload))
                    .unwrap_or(false)
            })
            .count();
        if holders * 2 <= voters.len() {
            c.oracle.violate(
                "C09",
                format!("maj{}t{}i{}", v.id, v.term, n),
                format!(
                    "leader {} (term {}) committed index {} while only {} of {} voters hold that entry",
                    v.id,
                    v.term,
                    n,
                    holders,
                    voters.len()
                ),
            );
        }
    }
}

/// A short canonical description of where a path ended (for distinct-outcome counting).
pub fn outcome_key(c: &Cluster) -> String {
    let mut s = String::new();
    for (id, v) in &c.last_views {
        let up = matches!(c.slots.get(id), Some(Slot::Up(_)));
        s.push_str(&format!(
            "{}:{}{:?}t{}c{}l{}a{};",
            id,
            if up { "" } else { "x" },
            v.role,
            v.term,
            v.commit,
            v.last,
            v.applied
        ));
    }
    s
}
