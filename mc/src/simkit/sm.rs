//! Reference key-value state machine with an apply observer and an apply gate.
//!
//! Semantics (DESIGN.md §3.4):
//!   Insert{k,v,None}   -> kv[k]=v; ttl.remove(k)
//!   Insert{k,v,Some t} -> kv[k]=v; ttl[k]=now+t
//!   Delete{k}          -> kv.remove(k); ttl.remove(k)
//!   CAS{k,exp,v}       -> ok = (kv.get(k)==exp); if ok {kv[k]=v; ttl.remove(k)}
//!   Noop               -> ()
//!
//! Durability is "ideal": data and `last_applied` are one atomic image that survives a
//! simulated crash (the real engines' crash behaviour is decided by `smmc`, not here).

use std::collections::BTreeMap;
use std::sync::Arc;
use std::sync::Mutex;
use std::sync::atomic::AtomicBool;
use std::sync::atomic::Ordering;

use async_trait::async_trait;
use bytes::Bytes;
use d_engine_core::ApplyEntry;
use d_engine_core::ApplyResult;
use d_engine_core::Command;
use d_engine_core::Error;
use d_engine_core::ScanResult;
use d_engine_core::StateMachine;
use d_engine_proto::common::LogId;
use d_engine_proto::server::storage::SnapshotMetadata;
use tokio::sync::Semaphore;

#[derive(Clone, Debug, Default, PartialEq)]
pub struct RefKv {
    pub kv: BTreeMap<Bytes, Bytes>,
    pub ttl: BTreeMap<Bytes, u64>,
}

impl RefKv {
    /// returns the success flag of the command
    pub fn apply(&mut self, cmd: &Command, now_s: u64) -> bool {
        match cmd {
            Command::Noop => true,
            Command::Insert { key, value, ttl_secs } => {
                self.kv.insert(key.clone(), value.clone());
                match ttl_secs {
                    Some(t) => {
                        self.ttl.insert(key.clone(), now_s.saturating_add(*t));
                    }
                    None => {
                        self.ttl.remove(key);
                    }
                }
                true
            }
            Command::Delete { key } => {
                self.kv.remove(key);
                self.ttl.remove(key);
                true
            }
            Command::CompareAndSwap { key, expected, value } => {
                let ok = self.kv.get(key) == expected.as_ref();
                if ok {
                    self.kv.insert(key.clone(), value.clone());
                    self.ttl.remove(key);
                }
                ok
            }
        }
    }
    pub fn cleanup(&mut self, now_s: u64) -> Vec<Bytes> {
        let due: Vec<Bytes> =
            self.ttl.iter().filter(|(_, d)| **d <= now_s).map(|(k, _)| k.clone()).collect();
        for k in &due {
            self.kv.remove(k);
            self.ttl.remove(k);
        }
        due
    }
}

/// The part of the state machine that survives a crash.
#[derive(Clone, Debug, Default)]
pub struct SmImage {
    pub state: RefKv,
    pub last_applied: LogId0,
    pub snapshot_meta: Option<SnapshotMetadata>,
    /// state after each applied index (for exact snapshots), pruned at snapshot install
    pub history: BTreeMap<u64, RefKv>,
    pub terms: BTreeMap<u64, u64>,
}

#[derive(Clone, Copy, Debug, Default, PartialEq, Eq)]
pub struct LogId0 {
    pub index: u64,
    pub term: u64,
}

/// One record per apply_chunk call (per node incarnation).
#[derive(Clone, Debug, PartialEq)]
pub struct ApplyRecord {
    pub incarnation: u32,
    pub entries: Vec<ApplyEntry>,
    pub results: Vec<bool>,
}

#[derive(Debug, Default)]
pub struct Observer {
    pub applies: Mutex<Vec<ApplyRecord>>,
}

#[derive(Debug)]
pub struct SimStateMachine {
    pub image: Arc<Mutex<SmImage>>,
    pub observer: Arc<Observer>,
    pub incarnation: u32,
    /// when `gated` is true every apply_chunk needs one permit
    pub gated: Arc<AtomicBool>,
    pub gate: Arc<Semaphore>,
    /// number of apply_chunk calls currently waiting at the gate
    pub waiting: Arc<std::sync::atomic::AtomicUsize>,
    pub alive: Arc<AtomicBool>,
    pub fail_next_apply: Arc<AtomicBool>,
    running: AtomicBool,
    /// virtual seconds for TTL
    pub now_s: Arc<std::sync::atomic::AtomicU64>,
}

impl SimStateMachine {
    pub fn new(image: Arc<Mutex<SmImage>>, observer: Arc<Observer>, incarnation: u32) -> Self {
        SimStateMachine {
            image,
            observer,
            incarnation,
            gated: Arc::new(AtomicBool::new(false)),
            gate: Arc::new(Semaphore::new(0)),
            waiting: Arc::new(std::sync::atomic::AtomicUsize::new(0)),
            alive: Arc::new(AtomicBool::new(true)),
            fail_next_apply: Arc::new(AtomicBool::new(false)),
            running: AtomicBool::new(false),
            now_s: Arc::new(std::sync::atomic::AtomicU64::new(0)),
        }
    }
    pub fn kv(&self) -> BTreeMap<Bytes, Bytes> {
        self.image.lock().unwrap().state.kv.clone()
    }
}

fn encode_state(s: &RefKv) -> Vec<u8> {
    let mut buf = Vec::new();
    buf.extend_from_slice(&(s.kv.len() as u64).to_be_bytes());
    for (k, v) in &s.kv {
        buf.extend_from_slice(&(k.len() as u64).to_be_bytes());
        buf.extend_from_slice(k);
        buf.extend_from_slice(&(v.len() as u64).to_be_bytes());
        buf.extend_from_slice(v);
    }
    buf.extend_from_slice(&(s.ttl.len() as u64).to_be_bytes());
    for (k, d) in &s.ttl {
        buf.extend_from_slice(&(k.len() as u64).to_be_bytes());
        buf.extend_from_slice(k);
        buf.extend_from_slice(&d.to_be_bytes());
    }
    buf
}

fn decode_state(b: &[u8]) -> Option<RefKv> {
    let mut p = 0usize;
    let rd = |p: &mut usize| -> Option<u64> {
        let v = u64::from_be_bytes(b.get(*p..*p + 8)?.try_into().ok()?);
        *p += 8;
        Some(v)
    };
    let mut s = RefKv::default();
    let n = rd(&mut p)?;
    for _ in 0..n {
        let kl = rd(&mut p)? as usize;
        let k = Bytes::copy_from_slice(b.get(p..p + kl)?);
        p += kl;
        let vl = rd(&mut p)? as usize;
        let v = Bytes::copy_from_slice(b.get(p..p + vl)?);
        p += vl;
        s.kv.insert(k, v);
    }
    let n = rd(&mut p)?;
    for _ in 0..n {
        let kl = rd(&mut p)? as usize;
        let k = Bytes::copy_from_slice(b.get(p..p + kl)?);
        p += kl;
        let d = rd(&mut p)?;
        s.ttl.insert(k, d);
    }
    Some(s)
}

fn sm_err(msg: impl Into<String>) -> Error {
    Error::System(d_engine_core::SystemError::Storage(
        d_engine_core::StorageError::StateMachineError(msg.into()),
    ))
}

#[async_trait]
impl StateMachine for SimStateMachine {
    async fn start(&self) -> Result<(), Error> {
        self.running.store(true, Ordering::SeqCst);
        Ok(())
    }
    fn stop(&self) -> Result<(), Error> {
        self.running.store(false, Ordering::SeqCst);
        Ok(())
    }
    fn is_running(&self) -> bool {
        self.running.load(Ordering::SeqCst)
    }
    fn get(&self, key_buffer: &[u8]) -> Result<Option<Bytes>, Error> {
        Ok(self.image.lock().unwrap().state.kv.get(key_buffer).cloned())
    }
    fn entry_term(&self, entry_id: u64) -> Option<u64> {
        self.image.lock().unwrap().terms.get(&entry_id).copied()
    }
    async fn apply_chunk(&self, chunk: &[ApplyEntry]) -> Result<Vec<ApplyResult>, Error> {
        if self.gated.load(Ordering::SeqCst) {
            self.waiting.fetch_add(1, Ordering::SeqCst);
            let permit = self.gate.acquire().await;
            self.waiting.fetch_sub(1, Ordering::SeqCst);
            match permit {
                Ok(p) => p.forget(),
                Err(_) => return Err(sm_err("gate closed")),
            }
        }
        if !self.alive.load(Ordering::SeqCst) {
            return Err(sm_err("node is dead"));
        }
        if self.fail_next_apply.swap(false, Ordering::SeqCst) {
            return Err(sm_err("injected apply failure"));
        }
        let now_s = self.now_s.load(Ordering::SeqCst);
        let mut results = Vec::with_capacity(chunk.len());
        let mut flags = Vec::with_capacity(chunk.len());
        {
            let mut img = self.image.lock().unwrap();
            for e in chunk {
                let ok = img.state.apply(&e.command, now_s);
                flags.push(ok);
                results.push(ApplyResult { index: e.index, succeeded: ok });
                let st = img.state.clone();
                img.history.insert(e.index, st);
                img.terms.insert(e.index, e.term);
                img.last_applied = LogId0 { index: e.index, term: e.term };
            }
        }
        self.observer.applies.lock().unwrap().push(ApplyRecord {
            incarnation: self.incarnation,
            entries: chunk.to_vec(),
            results: flags,
        });
        Ok(results)
    }
    fn len(&self) -> usize {
        self.image.lock().unwrap().state.kv.len()
    }
    fn update_last_applied(&self, last_applied: LogId) {
        let mut img = self.image.lock().unwrap();
        img.last_applied = LogId0 { index: last_applied.index, term: last_applied.term };
    }
    fn last_applied(&self) -> LogId {
        let la = self.image.lock().unwrap().last_applied;
        LogId { index: la.index, term: la.term }
    }
    fn persist_last_applied(&self, _last_applied: LogId) -> Result<(), Error> {
        Ok(())
    }
    fn update_last_snapshot_metadata(&self, m: &SnapshotMetadata) -> Result<(), Error> {
        self.image.lock().unwrap().snapshot_meta = Some(m.clone());
        Ok(())
    }
    fn snapshot_metadata(&self) -> Option<SnapshotMetadata> {
        self.image.lock().unwrap().snapshot_meta.clone()
    }
    fn persist_last_snapshot_metadata(&self, m: &SnapshotMetadata) -> Result<(), Error> {
        self.image.lock().unwrap().snapshot_meta = Some(m.clone());
        Ok(())
    }
    async fn apply_snapshot_from_file(
        &self,
        metadata: &SnapshotMetadata,
        snapshot_path: std::path::PathBuf,
    ) -> Result<(), Error> {
        let data = std::fs::read(snapshot_path.join("snapshot.bin"))
            .map_err(|e| sm_err(format!("read snapshot: {e}")))?;
        let st = decode_state(&data).ok_or_else(|| sm_err("undecodable snapshot"))?;
        let mut img = self.image.lock().unwrap();
        img.state = st.clone();
        img.history.clear();
        img.terms.clear();
        if let Some(li) = metadata.last_included {
            img.last_applied = LogId0 { index: li.index, term: li.term };
            img.history.insert(li.index, st);
            img.terms.insert(li.index, li.term);
        }
        img.snapshot_meta = Some(metadata.clone());
        Ok(())
    }
    async fn generate_snapshot_data(
        &self,
        new_snapshot_dir: std::path::PathBuf,
        last_included: LogId,
    ) -> Result<Bytes, Error> {
        std::fs::create_dir_all(&new_snapshot_dir).map_err(|e| sm_err(format!("mkdir: {e}")))?;
        let st = {
            let img = self.image.lock().unwrap();
            // exact state at last_included (ideal snapshot)
            if last_included.index == 0 {
                RefKv::default()
            } else {
                match img.history.get(&last_included.index) {
                    Some(s) => s.clone(),
                    None => return Err(sm_err("no state recorded at snapshot index")),
                }
            }
        };
        std::fs::write(new_snapshot_dir.join("snapshot.bin"), encode_state(&st))
            .map_err(|e| sm_err(format!("write snapshot: {e}")))?;
        let meta = SnapshotMetadata {
            last_included: Some(last_included),
            checksum: Bytes::from(vec![0u8; 32]),
        };
        self.image.lock().unwrap().snapshot_meta = Some(meta);
        Ok(Bytes::from(vec![0u8; 32]))
    }
    fn save_hard_state(&self) -> Result<(), Error> {
        Ok(())
    }
    fn flush(&self) -> Result<(), Error> {
        Ok(())
    }
    async fn flush_async(&self) -> Result<(), Error> {
        Ok(())
    }
    async fn reset(&self) -> Result<(), Error> {
        let mut img = self.image.lock().unwrap();
        *img = SmImage::default();
        Ok(())
    }
    fn scan_prefix(&self, prefix: &[u8]) -> Result<ScanResult, Error> {
        let img = self.image.lock().unwrap();
        let entries = img
            .state
            .kv
            .iter()
            .filter(|(k, _)| k.starts_with(prefix))
            .map(|(k, v)| (k.clone(), v.clone()))
            .collect();
        Ok(ScanResult { entries, revision: img.last_applied.index })
    }
    async fn lease_background_cleanup(&self) -> Result<Vec<Bytes>, Error> {
        let now_s = self.now_s.load(Ordering::SeqCst);
        Ok(self.image.lock().unwrap().state.cleanup(now_s))
    }
}
