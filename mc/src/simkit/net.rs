//! Simulated transport + network.
//!
//! * Vote RPC: `send_vote_requests` computes the peer set exactly as `GrpcTransport` does
//!   (`membership.voters()` minus self, deduplicated), deposits the request in the shared
//!   network object and suspends until the harness supplies the collected `VoteResult`.
//! * Replication: `open_replication_stream` hands the real per-peer worker a channel pair whose
//!   far end is a `Link` in the shared network object. A link is one *generation* of the bidi
//!   stream: FIFO, reliable until it is broken; breaking it loses the responses still in flight
//!   and makes the leader's worker reconnect (next generation).

use std::collections::BTreeMap;
use std::collections::HashSet;
use std::collections::VecDeque;
use std::sync::Arc;
use std::sync::Mutex;

use async_trait::async_trait;
use d_engine_core::AppendResult;
use d_engine_core::BackoffPolicy;
use d_engine_core::ClusterUpdateResult;
use d_engine_core::InstallSnapshotBackoffPolicy;
use d_engine_core::Membership;
use d_engine_core::NetworkError;
use d_engine_core::ReplicationStream;
use d_engine_core::Result;
use d_engine_core::RetryPolicies;
use d_engine_core::SnapshotConfig;
use d_engine_core::Transport;
use d_engine_core::TypeConfig;
use d_engine_core::VoteResult;
use d_engine_core::alias::MOF;
use d_engine_core::alias::SMHOF;
use d_engine_proto::server::cluster::ClusterConfChangeRequest;
use d_engine_proto::server::cluster::JoinRequest;
use d_engine_proto::server::cluster::JoinResponse;
use d_engine_proto::server::cluster::LeaderDiscoveryRequest;
use d_engine_proto::server::cluster::LeaderDiscoveryResponse;
use d_engine_proto::server::election::VoteRequest;
use d_engine_proto::server::replication::AppendEntriesRequest;
use d_engine_proto::server::replication::AppendEntriesResponse;
use d_engine_proto::server::storage::SnapshotAck;
use d_engine_proto::server::storage::SnapshotChunk;
use d_engine_proto::server::storage::SnapshotMetadata;
use futures::StreamExt;
use tokio::sync::mpsc;
use tokio::sync::oneshot;

pub struct PendingVote {
    pub candidate: u32,
    pub req: VoteRequest,
    pub peers: Vec<u32>,
    pub reply: oneshot::Sender<VoteResult>,
}

pub struct PendingSnapshotPush {
    pub from: u32,
    pub to: u32,
    pub metadata: SnapshotMetadata,
    pub chunks: Vec<SnapshotChunk>,
    pub reply: oneshot::Sender<Result<()>>,
}

pub struct PendingJoin {
    pub from: u32,
    pub leader: u32,
    pub req: JoinRequest,
    pub reply: oneshot::Sender<Result<JoinResponse>>,
}

pub struct Link {
    pub from: u32,
    pub to: u32,
    pub generation: u32,
    /// far end of the worker's request sender
    pub req_rx: mpsc::Receiver<AppendEntriesRequest>,
    /// far end of the worker's response stream
    pub resp_tx: mpsc::UnboundedSender<std::result::Result<AppendEntriesResponse, tonic::Status>>,
    /// requests pulled off `req_rx`, not yet delivered to the follower
    pub in_flight: VecDeque<AppendEntriesRequest>,
    /// responses produced by the follower, not yet delivered to the leader
    pub responses: VecDeque<AppendEntriesResponse>,
    pub broken: bool,
}

#[derive(Default)]
pub struct NetInner {
    pub pending_vote: Option<PendingVote>,
    pub pending_push: Vec<PendingSnapshotPush>,
    pub pending_join: Vec<PendingJoin>,
    pub links: Vec<Link>,
    pub next_generation: BTreeMap<(u32, u32), u32>,
    /// (id, term) of nodes currently in the Leader role (for discover_leader)
    pub leader_directory: Vec<(u32, u64)>,
    pub opened: u64,
    /// a second candidate asked for votes while an election was in flight (path is pruned)
    pub nested_election: bool,
}

#[derive(Clone, Default)]
pub struct Net(pub Arc<Mutex<NetInner>>);

impl Net {
    pub fn new() -> Self {
        Net::default()
    }
    /// Move requests from the workers' channels into the link queues.
    pub fn pump(&self) {
        let mut g = self.0.lock().unwrap();
        for l in g.links.iter_mut() {
            loop {
                match l.req_rx.try_recv() {
                    Ok(r) => l.in_flight.push_back(r),
                    Err(_) => break,
                }
            }
        }
        // forget dead links that carry nothing
        g.links.retain(|l| {
            !(l.in_flight.is_empty()
                && l.responses.is_empty()
                && (l.broken || l.resp_tx.is_closed()))
        });
    }
}

pub struct SimTransport<T: TypeConfig> {
    pub my_id: u32,
    pub net: Net,
    _p: std::marker::PhantomData<T>,
}

impl<T: TypeConfig> SimTransport<T> {
    pub fn new(my_id: u32, net: Net) -> Self {
        SimTransport { my_id, net, _p: std::marker::PhantomData }
    }
}

fn unsupported<R>(what: &str) -> Result<R> {
    Err(NetworkError::TaskBackoffFailed(format!("sim transport: {what} not supported")).into())
}

#[async_trait]
impl<T: TypeConfig> Transport<T> for SimTransport<T> {
    async fn send_cluster_update(
        &self,
        _req: ClusterConfChangeRequest,
        _retry: &RetryPolicies,
        _membership: Arc<MOF<T>>,
    ) -> Result<ClusterUpdateResult> {
        unsupported("send_cluster_update")
    }

    async fn send_append_requests(
        &self,
        _requests: Vec<(u32, AppendEntriesRequest)>,
        _retry: &RetryPolicies,
        _membership: Arc<MOF<T>>,
        _response_compress_enabled: bool,
    ) -> Result<AppendResult> {
        unsupported("send_append_requests")
    }

    async fn send_vote_requests(
        &self,
        req: VoteRequest,
        _retry: &RetryPolicies,
        membership: Arc<MOF<T>>,
    ) -> Result<VoteResult> {
        // Mirrors GrpcTransport::send_vote_requests peer-set computation.
        let peers = membership.voters().await;
        if peers.is_empty() {
            return Err(NetworkError::EmptyPeerList { request_type: "send_vote_requests" }.into());
        }
        let mut ids: Vec<u32> = Vec::new();
        let mut seen = HashSet::new();
        for p in peers {
            if p.id == self.my_id || !seen.insert(p.id) {
                continue;
            }
            ids.push(p.id);
        }
        ids.sort_unstable();
        let (tx, rx) = oneshot::channel();
        {
            let mut g = self.net.0.lock().unwrap();
            if g.pending_vote.is_some() {
                g.nested_election = true;
                return Err(NetworkError::TaskBackoffFailed("second election in flight (harness limit)".into()).into());
            }
            g.pending_vote =
                Some(PendingVote { candidate: self.my_id, req, peers: ids, reply: tx });
        }
        match rx.await {
            Ok(r) => Ok(r),
            Err(_) => Err(NetworkError::TaskBackoffFailed("election aborted by harness".into()).into()),
        }
    }

    async fn join_cluster(
        &self,
        leader_id: u32,
        request: JoinRequest,
        _retry: BackoffPolicy,
        _membership: Arc<MOF<T>>,
    ) -> Result<JoinResponse> {
        let (tx, rx) = oneshot::channel();
        self.net.0.lock().unwrap().pending_join.push(PendingJoin {
            from: self.my_id,
            leader: leader_id,
            req: request,
            reply: tx,
        });
        match rx.await {
            Ok(r) => r,
            Err(_) => Err(NetworkError::TaskBackoffFailed("join aborted by harness".into()).into()),
        }
    }

    async fn discover_leader(
        &self,
        _request: LeaderDiscoveryRequest,
        _rpc_enable_compression: bool,
        _membership: Arc<MOF<T>>,
    ) -> Result<Vec<LeaderDiscoveryResponse>> {
        // answered from the directory the harness maintains: the nodes currently in the Leader role
        let g = self.net.0.lock().unwrap();
        Ok(g.leader_directory
            .iter()
            .map(|(id, term)| LeaderDiscoveryResponse {
                leader_id: *id,
                leader_address: format!("127.0.0.1:{}", 9000 + id),
                term: *term,
            })
            .collect())
    }

    async fn send_append_request(
        &self,
        _peer_id: u32,
        _request: AppendEntriesRequest,
        _retry: &RetryPolicies,
        _membership: Arc<MOF<T>>,
        _response_compress_enabled: bool,
    ) -> Result<AppendEntriesResponse> {
        unsupported("send_append_request")
    }

    async fn send_snapshot(
        &self,
        peer_id: u32,
        metadata: SnapshotMetadata,
        state_machine_handler: Arc<SMHOF<T>>,
        _membership: Arc<MOF<T>>,
        _config: SnapshotConfig,
    ) -> Result<()> {
        use d_engine_core::StateMachineHandler;
        // Same data source as the real push path: the handler's chunk stream.
        let mut stream = state_machine_handler.load_snapshot_data(metadata.clone()).await?;
        let mut chunks = Vec::new();
        while let Some(c) = stream.next().await {
            chunks.push(c?);
        }
        let (tx, rx) = oneshot::channel();
        self.net.0.lock().unwrap().pending_push.push(PendingSnapshotPush {
            from: self.my_id,
            to: peer_id,
            metadata,
            chunks,
            reply: tx,
        });
        match rx.await {
            Ok(r) => r,
            Err(_) => Err(NetworkError::TaskBackoffFailed("snapshot push aborted".into()).into()),
        }
    }

    async fn request_snapshot_from_leader(
        &self,
        _leader_id: u32,
        _ack_tx: mpsc::Receiver<SnapshotAck>,
        _retry: &InstallSnapshotBackoffPolicy,
        _membership: Arc<MOF<T>>,
    ) -> Result<mpsc::Receiver<SnapshotChunk>> {
        unsupported("request_snapshot_from_leader")
    }

    async fn open_replication_stream(
        &self,
        peer_id: u32,
        _membership: Arc<MOF<T>>,
        _compress: bool,
    ) -> Result<ReplicationStream> {
        let (req_tx, req_rx) = mpsc::channel::<AppendEntriesRequest>(128);
        let (resp_tx, resp_rx) = mpsc::unbounded_channel();
        let mut g = self.net.0.lock().unwrap();
        let generation = {
            let c = g.next_generation.entry((self.my_id, peer_id)).or_insert(0);
            *c += 1;
            *c
        };
        g.opened += 1;
        g.links.push(Link {
            from: self.my_id,
            to: peer_id,
            generation,
            req_rx,
            resp_tx,
            in_flight: VecDeque::new(),
            responses: VecDeque::new(),
            broken: false,
        });
        let receiver = tokio_stream::wrappers::UnboundedReceiverStream::new(resp_rx).boxed();
        Ok(ReplicationStream { sender: req_tx, receiver })
    }
}
