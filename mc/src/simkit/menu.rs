//! Which events are offered in a state (the alphabet of a run), with their deviation cost.

use serde::Deserialize;
use serde::Serialize;

use super::cluster::Cluster;
use super::cluster::ClientOutcome;
use super::cluster::Event;
use super::cluster::Op;
use super::cluster::RPolicy;
use super::cluster::RoleKind;
use super::cluster::Slot;
use super::cluster::VoteAns;
use super::node::CrashMode;

#[derive(Clone, Copy, Debug, PartialEq, Eq, Serialize, Deserialize)]
pub enum Targets {
    Leaders,
    All,
}

#[derive(Clone, Debug, Serialize, Deserialize)]
pub struct Menu {
    pub timeouts: bool,
    /// nodes allowed to time out (empty = all)
    pub timeout_nodes: Vec<u32>,
    pub heartbeats: bool,
    /// offer "timer becomes due during the node's next turn" for leaders
    pub mid_turn_timers: bool,
    pub max_heartbeats: usize,
    pub max_inflight: usize,
    pub deliver_batch_max: u8,
    pub vote_answers: Vec<VoteAns>,
    pub breaks: bool,
    pub writes: Vec<Op>,
    pub write_pairs: Vec<(Op, Op)>,
    /// k-th write offered together with a linearizable read of the given key in one drain cycle
    #[serde(default)]
    pub mixed: Vec<(Op, String)>,
    pub max_writes: usize,
    pub write_targets: Targets,
    pub reads: Vec<(String, RPolicy)>,
    pub max_reads: usize,
    pub read_targets: Targets,
    pub crashes: Vec<CrashMode>,
    pub stops: bool,
    pub max_crashes: usize,
    /// nodes allowed to crash/stop (empty = all)
    pub crash_nodes: Vec<u32>,
    pub apply_release: bool,
    pub advances: Vec<u64>,
    pub max_advances: usize,
    pub snapshots: bool,
    pub max_snapshots: usize,
    pub joins: bool,
    /// timed mode: offer `Tick` (time jumps to the next timer deadline) up to this many times
    #[serde(default)]
    pub max_ticks: usize,
    /// offer "the next apply on the leader fails" once
    #[serde(default)]
    pub fatal_sm: bool,
    /// offer "the head responses of two links reach the leader before its next turn"
    #[serde(default)]
    pub resp_pairs: bool,
    /// what the explorer appends at the end of every path (see cluster_ext::closure)
    #[serde(default)]
    pub closure: Closure,
}

#[derive(Clone, Copy, Debug, Default, PartialEq, Eq, Serialize, Deserialize)]
pub enum Closure {
    #[default]
    None,
    /// C30: nothing is delivered any more, only time passes (at most this many ticks): every
    /// accepted request must have been answered by its deadline
    TimeOnly(usize),
    /// C32: faults stop - every down node restarts, everything is delivered FIFO, time passes,
    /// then one write; bounded number of steps
    Recover(usize),
}

impl Default for Menu {
    fn default() -> Self {
        Menu {
            timeouts: true,
            timeout_nodes: vec![],
            heartbeats: true,
            mid_turn_timers: false,
            max_heartbeats: 2,
            max_inflight: 2,
            deliver_batch_max: 1,
            vote_answers: vec![VoteAns::Deliver, VoteAns::Lose],
            breaks: false,
            writes: vec![],
            write_pairs: vec![],
            mixed: vec![],
            max_writes: 0,
            write_targets: Targets::Leaders,
            reads: vec![],
            max_reads: 0,
            read_targets: Targets::Leaders,
            crashes: vec![],
            stops: false,
            max_crashes: 0,
            crash_nodes: vec![],
            apply_release: true,
            advances: vec![],
            max_advances: 0,
            snapshots: false,
            max_snapshots: 0,
            joins: false,
            max_ticks: 0,
            fatal_sm: false,
            resp_pairs: false,
            closure: Closure::None,
        }
    }
}

fn count<F: Fn(&Event) -> bool>(_c: &Cluster, hist: &[Event], f: F) -> usize {
    hist.iter().filter(|e| f(e)).count()
}

impl Menu {
    /// Events enabled in the state, simplest first, with their deviation cost.
    pub fn enabled(&self, c: &Cluster, devs: usize, max_devs: usize) -> Vec<(Event, usize)> {
        let mut out: Vec<(Event, usize)> = Vec::new();
        let budget = max_devs.saturating_sub(devs);
        let push = |out: &mut Vec<(Event, usize)>, ev: Event, cost: usize| {
            if cost <= budget {
                out.push((ev, cost));
            }
        };

        // An election in flight: only its next answer is enabled.
        if let Some(el) = &c.election {
            let peer = el.peers[el.answered.len()];
            for a in &self.vote_answers {
                let cost = if *a == VoteAns::Deliver { 0 } else { 1 };
                push(&mut out, Event::Vote(peer, *a), cost);
            }
            return out;
        }

        if c.stuck.is_some() {
            return out;
        }
        let hist = &c.history;
        let up = c.up_ids();
        let any_leader = up.iter().any(|i| c.last_views.get(i).map(|v| v.role == RoleKind::Leader).unwrap_or(false));

        // deliveries first (the default environment)
        for (link, nreq, nresp, dead) in c.links() {
            // a node blocked in its election / join call does not read its inbox yet
            let target_busy = matches!(c.slots.get(&link.to), Some(Slot::Busy) | Some(Slot::Absent));
            if nreq > 0 && !target_busy {
                let maxk = (self.deliver_batch_max as usize).min(nreq);
                for k in 1..=maxk {
                    push(&mut out, Event::Deliver(link, k as u8), 0);
                }
                if dead {
                    push(&mut out, Event::DropReq(link), 0);
                }
            }
            if nresp > 0 && !dead {
                push(&mut out, Event::DeliverResp(link), 0);
            }
            if self.breaks && !dead && (nreq > 0 || nresp > 0) {
                push(&mut out, Event::Break(link), 1);
            }
        }

        if self.resp_pairs {
            let ls: Vec<_> = c.links().into_iter().filter(|(_, _, nresp, dead)| *nresp > 0 && !*dead).map(|(l, _, _, _)| l).collect();
            for i in 0..ls.len() {
                for j in 0..ls.len() {
                    if i != j && ls[i].from == ls[j].from {
                        push(&mut out, Event::DeliverResp2(ls[i], ls[j]), 0);
                    }
                }
            }
        }

        // snapshot pushes in flight
        for (from, to) in c.pushes() {
            push(&mut out, Event::PushDeliver(from, to), 0);
            push(&mut out, Event::PushFail(from, to), 1);
        }

        // gated applies
        if self.apply_release {
            for id in &up {
                if let Some(n) = c.node(*id) {
                    if n.sm.waiting.load(std::sync::atomic::Ordering::SeqCst) > 0 {
                        push(&mut out, Event::ApplyRelease(*id), 0);
                    }
                }
            }
        }

        // client operations
        let nwrites = count(c, hist, |e| matches!(e, Event::ClientWrite(..) | Event::ClientWritePair(..) | Event::ClientMixed(..)));
        if nwrites < self.max_writes {
            for id in &up {
                let is_leader = c.last_views.get(id).map(|v| v.role == RoleKind::Leader).unwrap_or(false);
                if self.write_targets == Targets::Leaders && !is_leader {
                    continue;
                }
                // unique values: the k-th write of the menu is offered once
                if let Some(op) = self.writes.get(nwrites) {
                    push(&mut out, Event::ClientWrite(*id, op.clone()), 0);
                }
                if let Some((a, b)) = self.write_pairs.get(nwrites) {
                    push(&mut out, Event::ClientWritePair(*id, a.clone(), b.clone()), 0);
                }
                if let Some((a, k)) = self.mixed.get(nwrites) {
                    push(&mut out, Event::ClientMixed(*id, a.clone(), k.clone()), 0);
                }
            }
        }
        let nreads = count(c, hist, |e| matches!(e, Event::ClientRead(..)));
        if nreads < self.max_reads {
            for id in &up {
                let is_leader = c.last_views.get(id).map(|v| v.role == RoleKind::Leader).unwrap_or(false);
                if self.read_targets == Targets::Leaders && !is_leader {
                    continue;
                }
                for (k, p) in &self.reads {
                    push(&mut out, Event::ClientRead(*id, k.clone(), *p), 0);
                }
            }
        }

        // timers
        if self.heartbeats {
            let nhb = count(c, hist, |e| matches!(e, Event::Heartbeat(_)));
            if nhb < self.max_heartbeats {
                for id in &up {
                    let v = c.last_views.get(id);
                    if v.map(|v| v.role == RoleKind::Leader && !v.fatal).unwrap_or(false) {
                        let inflight: usize = c
                            .links()
                            .iter()
                            .filter(|(l, _, _, dead)| l.from == *id && !*dead)
                            .map(|(_, a, _, _)| *a)
                            .max()
                            .unwrap_or(0);
                        if inflight < self.max_inflight {
                            push(&mut out, Event::Heartbeat(*id), 0);
                        }
                    }
                }
            }
        }
        if self.mid_turn_timers {
            let n = count(c, hist, |e| matches!(e, Event::TimerAfterNextTurn(_)));
            if n < 1 {
                for id in &up {
                    let v = c.last_views.get(id);
                    if v.map(|v| v.role == RoleKind::Leader && !v.fatal).unwrap_or(false)
                        && !c.armed_timers.contains(id)
                    {
                        push(&mut out, Event::TimerAfterNextTurn(*id), 1);
                    }
                }
            }
        }
        if self.timeouts {
            for id in &up {
                if !self.timeout_nodes.is_empty() && !self.timeout_nodes.contains(id) {
                    continue;
                }
                let v = c.last_views.get(id);
                if v.map(|v| matches!(v.role, RoleKind::Follower | RoleKind::Candidate) && !v.fatal).unwrap_or(false) {
                    // a candidate's next expiry follows from its own earlier timeout
                    let is_candidate = v.map(|v| v.role == RoleKind::Candidate).unwrap_or(false);
                    let cost = if any_leader && !is_candidate { 1 } else { 0 };
                    push(&mut out, Event::Timeout(*id), cost);
                }
            }
        }

        // time
        if self.max_ticks > 0 {
            let nt = count(c, hist, |e| matches!(e, Event::Tick));
            if nt < self.max_ticks && !up.is_empty() {
                push(&mut out, Event::Tick, 0);
            }
        }
        let nadv = count(c, hist, |e| matches!(e, Event::Advance(_)));
        if nadv < self.max_advances {
            for a in &self.advances {
                push(&mut out, Event::Advance(*a), 0);
            }
        }

        if self.fatal_sm && count(c, hist, |e| matches!(e, Event::FailApply(_))) == 0 {
            for id in &up {
                if c.last_views.get(id).map(|v| v.role == RoleKind::Leader).unwrap_or(false) {
                    push(&mut out, Event::FailApply(*id), 1);
                }
            }
        }

        // snapshots
        if self.snapshots {
            let ns = count(c, hist, |e| matches!(e, Event::Snapshot(_)));
            if ns < self.max_snapshots {
                for id in &up {
                    if c.last_views.get(id).map(|v| v.applied >= 2).unwrap_or(false) {
                        push(&mut out, Event::Snapshot(*id), 0);
                    }
                }
            }
        }

        // joins of nodes that are not part of the cluster yet
        if self.joins && any_leader && c.joining.is_empty() {
            for (id, s) in &c.slots {
                if matches!(s, Slot::Absent) {
                    push(&mut out, Event::Join(*id), 0);
                }
            }
        }

        // faults
        let ncrash = count(c, hist, |e| matches!(e, Event::Crash(..) | Event::Stop(_)));
        let down: usize = c.slots.values().filter(|s| matches!(s, Slot::Down(_))).count();
        let voters = c.opts.voters.len();
        if ncrash < self.max_crashes && (down + 1) * 2 < voters + 1 {
            for id in &up {
                if !self.crash_nodes.is_empty() && !self.crash_nodes.contains(id) {
                    continue;
                }
                for m in &self.crashes {
                    push(&mut out, Event::Crash(*id, *m), 1);
                }
                if self.stops {
                    push(&mut out, Event::Stop(*id), 1);
                }
            }
        }
        for (id, s) in &c.slots {
            if matches!(s, Slot::Down(_)) {
                push(&mut out, Event::Restart(*id), 0);
            }
        }
        let _ = ClientOutcome::Pending;
        out
    }
}
