//! Runs a set of exploration specs for one property on all cores, prints the verdict lines and
//! writes the evidence file.

use std::collections::VecDeque;
use std::sync::Arc;
use std::sync::Mutex;
use std::sync::atomic::Ordering;
use std::time::Duration;
use std::time::Instant;

use serde::Deserialize;
use serde::Serialize;
use serde_json::json;

use crate::evidence::Evidence;
use crate::explore::Bounds;
use crate::explore::Explorer;
use crate::explore::Shared;
use crate::explore::build;
use crate::simkit::cluster::Event;
use crate::simkit::cluster::Opts;
use crate::simkit::cluster::Violation;
use crate::simkit::menu::Menu;

#[derive(Clone, Debug, Serialize, Deserialize)]
pub struct RunSpec {
    pub name: String,
    pub opts: Opts,
    pub menu: Menu,
    pub prefix: Vec<Event>,
    pub max_depth: usize,
    pub max_devs: usize,
}

pub struct RunResult {
    pub name: String,
    pub states: u64,
    pub transitions: u64,
    pub paths: u64,
    pub replays: u64,
    pub events_executed: u64,
    pub max_depth_seen: u64,
    pub capped: bool,
    pub outcomes: usize,
    pub samples: Vec<Vec<Event>>,
    pub found: Vec<(Violation, Vec<Event>)>,
    pub pruned_known: u64,
    pub wall_s: f64,
    pub max_depth: usize,
    pub max_devs: usize,
}

pub fn scratch_root() -> std::path::PathBuf {
    let base = std::env::var("VERIF_SCRATCH").unwrap_or_else(|_| "/dev/shm".into());
    let p = std::path::PathBuf::from(base).join(format!("verif.{}", std::process::id()));
    let _ = std::fs::create_dir_all(&p);
    p
}

pub fn cleanup_scratch() {
    let _ = std::fs::remove_dir_all(scratch_root());
}

fn rt() -> tokio::runtime::Runtime {
    paused_rt(0)
}

/// Current-thread runtime with a paused clock and a FIXED select!/scheduler seed, so that
/// `tokio::select!` without `biased` (the log's batch_processor) is reproducible. `variant`
/// selects a different (but still fixed) seed; VERIF_SEED is mixed in.
pub fn paused_rt(variant: u64) -> tokio::runtime::Runtime {
    let seed = format!("verif-{}-{}", crate::evidence::seed(), variant);
    tokio::runtime::Builder::new_current_thread()
        .enable_time()
        .start_paused(true)
        .rng_seed(tokio::runtime::RngSeed::from_bytes(seed.as_bytes()))
        .build()
        .expect("runtime")
}

pub fn threads() -> usize {
    std::env::var("VERIF_THREADS")
        .ok()
        .and_then(|s| s.parse().ok())
        .unwrap_or_else(|| std::thread::available_parallelism().map(|n| n.get()).unwrap_or(4))
}

/// Silence the repository's `println!`s (role transitions etc.): fd 1 -> /dev/null, verdict
/// lines go to the saved fd.
pub fn silence_stdout() -> std::fs::File {
    use std::os::fd::FromRawFd;
    unsafe {
        let saved = libc::dup(1);
        let devnull = libc::open(c"/dev/null".as_ptr(), libc::O_WRONLY);
        libc::dup2(devnull, 1);
        // the repository also uses eprintln! (e.g. undecodable files); keep stderr only for debugging
        if std::env::var("VERIF_TRACE").is_err() && std::env::var("C36_DEBUG").is_err() {
            libc::dup2(devnull, 2);
        }
        libc::close(devnull);
        std::fs::File::from_raw_fd(saved)
    }
}

pub fn run_one(spec: &RunSpec, properties: &[String], deadline: Instant, stop_at_first: bool, guards: &[crate::known::Guard]) -> Result<RunResult, String> {
    let t0 = Instant::now();
    let shared = Shared::new();
    let nthreads = threads();
    let bounds = Bounds {
        max_depth: spec.max_depth,
        max_devs: spec.max_devs,
        deadline: Some(deadline),
        properties: properties.to_vec(),
        stop_at_first,
    };
    let guards: Vec<crate::known::Guard> = guards.to_vec();
    let root = scratch_root();

    // ---- frontier generation (breadth-first, main thread)
    let main_scratch = root.join("main");
    let _ = std::fs::create_dir_all(&main_scratch);
    let ex0 = Explorer {
        opts: spec.opts.clone(),
        menu: spec.menu.clone(),
        prefix: spec.prefix.clone(),
        bounds: bounds.clone(),
        shared: shared.clone(),
        scratch: main_scratch.clone(),
        known_guards: guards.clone(),
    };
    let want = nthreads * 8;
    let frontier: Vec<(Vec<Event>, usize)> = rt().block_on(async {
        let mut frontier: VecDeque<(Vec<Event>, usize)> = VecDeque::new();
        // validate the prefix
        let c = build(&spec.opts, &main_scratch, &spec.prefix, Some(&shared)).await?;
        let fp = c.fingerprint().await;
        shared.visit(fp, 0, 0);
        drop(c);
        frontier.push_back((spec.prefix.clone(), 0));
        let mut level = 0usize;
        while frontier.len() < want && level < spec.max_depth.saturating_sub(1) && level < 3 {
            let mut next: VecDeque<(Vec<Event>, usize)> = VecDeque::new();
            for (h, d) in frontier.drain(..) {
                let c = build(&spec.opts, &main_scratch, &h, Some(&shared)).await?;
                let enabled = spec.menu.enabled(&c, d, spec.max_devs);
                drop(c);
                if enabled.is_empty() {
                    shared.paths.fetch_add(1, Ordering::Relaxed);
                    continue;
                }
                for (ev, cost) in enabled {
                    let mut c = build(&spec.opts, &main_scratch, &h, Some(&shared)).await?;
                    let before = c.oracle.violations.len();
                    crate::simkit::cluster_ext::apply_any(&mut c, &ev).await?;
                    crate::simkit::cluster_ext::check_global(&mut c).await;
                    shared.transitions.fetch_add(1, Ordering::Relaxed);
                    let mut hh = h.clone();
                    hh.push(ev);
                    let mut bad = false;
                    for v in c.oracle.violations[before..].iter() {
                        if !bounds.properties.is_empty() && !bounds.properties.contains(&v.property) {
                            continue;
                        }
                        if ex0.known_guards.iter().any(|g| g.matches(v, &c)) {
                            shared.pruned_known.fetch_add(1, Ordering::Relaxed);
                            bad = true;
                            continue;
                        }
                        shared.found.lock().unwrap().push((v.clone(), hh.clone()));
                        bad = true;
                    }
                    if bad {
                        continue;
                    }
                    let fp = c.fingerprint().await;
                    let depth = hh.len() - spec.prefix.len();
                    if shared.visit(fp, depth as u16, (d + cost) as u16) {
                        next.push_back((hh, d + cost));
                    }
                }
            }
            frontier = next;
            level += 1;
            if frontier.is_empty() {
                break;
            }
        }
        Ok::<_, String>(frontier.into_iter().collect())
    })?;

    // ---- parallel depth-first exploration below the frontier
    let queue = Arc::new(Mutex::new(VecDeque::from(frontier)));
    let mut handles = vec![];
    for w in 0..nthreads {
        let queue = queue.clone();
        let shared = shared.clone();
        let spec = spec.clone();
        let bounds = bounds.clone();
        let guards = guards.clone();
        let scratch = root.join(format!("w{w}"));
        let _ = std::fs::create_dir_all(&scratch);
        handles.push(
            std::thread::Builder::new()
                .name(format!("explore-{w}"))
                .stack_size(64 << 20)
                .spawn(move || {
                    let ex = Explorer {
                        opts: spec.opts.clone(),
                        menu: spec.menu.clone(),
                        prefix: spec.prefix.clone(),
                        bounds,
                        shared: shared.clone(),
                        scratch: scratch.clone(),
                        known_guards: guards,
                    };
                    let mut done = 0usize;
                    let mut runtime = rt();
                    loop {
                        let item = queue.lock().unwrap().pop_front();
                        let Some((h, d)) = item else { break };
                        if shared.stop.load(Ordering::Relaxed) {
                            break;
                        }
                        // a fresh runtime now and then keeps leaked tasks bounded
                        done += 1;
                        if done % 16 == 0 {
                            runtime = rt();
                        }
                        let r: Result<(), String> = runtime.block_on(async {
                            let c = build(&ex.opts, &ex.scratch, &h, Some(&ex.shared)).await?;
                            let mut hist = h.clone();
                            ex.dfs(&mut hist, c, d).await
                        });
                        if let Err(e) = r {
                            shared.errors.lock().unwrap().push(e);
                            shared.stop.store(true, Ordering::Relaxed);
                            break;
                        }
                    }
                })
                .expect("spawn"),
        );
    }
    for h in handles {
        if let Err(p) = h.join() {
            let msg = p.downcast_ref::<String>().cloned().or_else(|| p.downcast_ref::<&str>().map(|s| s.to_string())).unwrap_or_default();
            shared.errors.lock().unwrap().push(format!("worker thread panicked: {msg}"));
        }
    }
    let errs = shared.errors.lock().unwrap().clone();
    if !errs.is_empty() {
        return Err(format!("machinery error in run {}: {}", spec.name, errs.join(" | ")));
    }
    let found = shared.found.lock().unwrap().clone();
    Ok(RunResult {
        name: spec.name.clone(),
        states: shared.states.load(Ordering::Relaxed),
        transitions: shared.transitions.load(Ordering::Relaxed),
        paths: shared.paths.load(Ordering::Relaxed),
        replays: shared.replays.load(Ordering::Relaxed),
        events_executed: shared.events_executed.load(Ordering::Relaxed),
        max_depth_seen: shared.max_depth_seen.load(Ordering::Relaxed),
        capped: shared.capped.load(Ordering::Relaxed),
        outcomes: shared.outcomes.lock().unwrap().len(),
        samples: shared.samples.lock().unwrap().clone(),
        found,
        pruned_known: shared.pruned_known.load(Ordering::Relaxed),
        wall_s: t0.elapsed().as_secs_f64(),
        max_depth: spec.max_depth,
        max_devs: spec.max_devs,
    })
}

/// Re-execute a history from scratch and return the violations (for confirming a finding
/// before it is reported, and for `--replay`).
pub fn replay(opts: &Opts, history: &[Event]) -> Result<Vec<Violation>, String> {
    let scratch = scratch_root().join("replay");
    let _ = std::fs::create_dir_all(&scratch);
    rt().block_on(async {
        let mut c = crate::simkit::cluster::Cluster::new(opts.clone(), scratch.clone()).await?;
        let trace = std::env::var("VERIF_TRACE").is_ok();
        let idle: u64 = std::env::var("VERIF_DEBUG_IDLE_MS").ok().and_then(|v| v.parse().ok()).unwrap_or(0);
        for ev in history {
            if idle > 0 {
                tokio::time::sleep(std::time::Duration::from_millis(idle)).await;
            }
            crate::simkit::cluster_ext::apply_any(&mut c, ev).await?;
            crate::simkit::cluster_ext::check_global(&mut c).await;
            if trace {
                eprintln!("== {ev:?}");
                eprint!("{}", dump(&c).await);
            }
        }
        Ok(c.oracle.violations.clone())
    })
}

/// Text rendering of a cluster state (trace output, determinism self-check).
pub async fn dump(c: &crate::simkit::cluster::Cluster) -> String {
    use std::fmt::Write;
    let mut o = String::new();
    for v in crate::simkit::cluster_ext::all_views(c).await {
        let _ = writeln!(
            o,
            "   [{}ms] n{} {:?} lease{:?} dl{:?} t{} vf{:?} c{} log{:?} dur{} app{} next{:?} match{:?} q{:?} ntf{:?}",
            c.clock_ms, v.id, v.role, v.lease_left, v.deadline_left, v.term, v.voted_for, v.commit,
            v.log.iter().map(|e| (e.index, e.term)).collect::<Vec<_>>(),
            v.durable, v.applied, v.next_index, v.match_index, v.queues, v.notified_leader
        );
    }
    for (l, a, b, dead) in c.links() {
        let _ = writeln!(o, "   link {}->{} g{} reqs{} resps{} dead{}", l.from, l.to, l.generation, a, b, dead);
    }
    for cl in &c.clients {
        let _ = writeln!(o, "   client#{} n{} {:?}{:?} -> {:?}", cl.id, cl.node, cl.write, cl.read, cl.outcome);
    }
    let _ = writeln!(o, "   violations: {:?}", c.oracle.violations.iter().map(|v| &v.what).collect::<Vec<_>>());
    o
}

/// Greedy delta-debugging of a failing history: drop single events while the same violation
/// (same property, same text) still occurs and the history is still executable.
pub fn minimise(opts: &Opts, prefix_len: usize, history: &[Event], v: &Violation) -> Vec<Event> {
    let mut cur = history.to_vec();
    let mut changed = true;
    while changed {
        changed = false;
        let mut i = cur.len();
        while i > prefix_len {
            i -= 1;
            let mut cand = cur.clone();
            cand.remove(i);
            if let Ok(vs) = replay(opts, &cand) {
                if vs.iter().any(|x| x.property == v.property && x.what == v.what) {
                    cur = cand;
                    changed = true;
                }
            }
        }
    }
    cur
}

pub struct CheckOutcome {
    pub exit: i32,
}

/// Full check for one property: run all specs, confirm + minimise findings, print verdict
/// lines, write evidence.
pub fn run_check(
    property: &str,
    tier: &str,
    specs: &[RunSpec],
    budget_s: u64,
    extra_assumptions: &[&str],
    out: &mut std::fs::File,
) -> i32 {
    use std::io::Write;
    let t0 = Instant::now();
    let deadline = t0 + Duration::from_secs(budget_s);
    let props = if property == "ALL" { vec![] } else { vec![property.to_string()] };
    let mut results = vec![];
    let mut exit = 0;
    // known findings: a guard is armed only while its recorded replay still fails
    let mut known = vec![];
    let mut known_hit: Vec<String> = vec![];
    for g in crate::known::guards_for(property) {
        let Some(rel) = g.finding.replay.clone() else {
            known.push(g);
            continue;
        };
        let path = crate::known::verif_root().join(&rel);
        let parsed = std::fs::read_to_string(&path)
            .ok()
            .and_then(|t| serde_json::from_str::<serde_json::Value>(&t).ok());
        let Some(v) = parsed else {
            let _ = writeln!(out, "MACHINERY-ERROR property={property} cannot read known-finding replay {}", path.display());
            cleanup_scratch();
            return 2;
        };
        let opts: Opts = match serde_json::from_value(v["opts"].clone()) {
            Ok(o) => o,
            Err(_) => Opts::default(),
        };
        let Ok(events) = serde_json::from_value::<Vec<Event>>(v["events"].clone()) else {
            let _ = writeln!(out, "MACHINERY-ERROR property={property} bad events in {}", path.display());
            cleanup_scratch();
            return 2;
        };
        match replay(&opts, &events) {
            Ok(vs) => {
                if vs.iter().any(|x| g.text_matches(&x.property, &x.what)) {
                    known_hit.push(g.finding.id.clone());
                    known.push(g);
                }
                // else: the recorded history no longer fails - the guard is disarmed and the
                // space behind it is explored normally
            }
            Err(e) => {
                let _ = writeln!(out, "MACHINERY-ERROR property={property} known-finding replay {}: {e}", path.display());
                cleanup_scratch();
                return 2;
            }
        }
    }
    for (i, spec) in specs.iter().enumerate() {
        // share the remaining budget evenly over the remaining specs
        let now = Instant::now();
        let remaining = deadline.saturating_duration_since(now);
        // each later run keeps a 6 s reserve; the rest may be used by this one
        let left = (specs.len() - i) as u32;
        let share = (remaining / left).max(remaining.saturating_sub(Duration::from_secs(6 * (left as u64 - 1))));
        let r = match run_one(spec, &props, now + share, false, &known) {
            Ok(r) => r,
            Err(e) => {
                let _ = writeln!(out, "MACHINERY-ERROR property={property} {e}");
                cleanup_scratch();
                return 2;
            }
        };
        results.push((spec.clone(), r));
    }
    // verdicts
    let mut nviol = 0;
    let mut replay_paths = vec![];
    // regression replays of repaired defects: a fixed entry suppresses nothing
    let mut regress_run = 0usize;
    let rdir = crate::known::verif_root().join("regress").join(property);
    if let Ok(rd) = std::fs::read_dir(&rdir) {
        let mut files: Vec<_> = rd.filter_map(|e| e.ok()).map(|e| e.path()).collect();
        files.sort();
        for f in files {
            let Ok(text) = std::fs::read_to_string(&f) else { continue };
            let Ok(v) = serde_json::from_str::<serde_json::Value>(&text) else { continue };
            let opts: Opts = if v["opts"].is_null() {
                Opts::default()
            } else {
                match serde_json::from_value(v["opts"].clone()) {
                    Ok(o) => o,
                    Err(_) => continue,
                }
            };
            let Ok(events) = serde_json::from_value::<Vec<Event>>(v["events"].clone()) else { continue };
            regress_run += 1;
            match replay(&opts, &events) {
                Ok(vs) => {
                    for x in vs.iter().filter(|x| x.property == property) {
                        nviol += 1;
                        let _ = writeln!(out, "VIOLATION property={property} replay={}", f.display());
                        let _ = writeln!(out, "  (regression of a repaired defect) {}", x.what);
                        replay_paths.push(f.display().to_string());
                        exit = 1;
                        break;
                    }
                }
                Err(e) => {
                    let _ = writeln!(out, "MACHINERY-ERROR property={property} regress replay {}: {e}", f.display());
                    cleanup_scratch();
                    return 2;
                }
            }
        }
    }
    for (spec, r) in &results {
        for (v, h) in &r.found {
            // confirm by re-execution from scratch
            let confirmed = match replay(&spec.opts, h) {
                Ok(vs) => vs.iter().any(|x| x.property == v.property && x.what == v.what),
                Err(e) => {
                    let _ = writeln!(out, "MACHINERY-ERROR property={property} replay failed: {e}");
                    cleanup_scratch();
                    return 2;
                }
            };
            if !confirmed {
                let _ = writeln!(
                    out,
                    "MACHINERY-ERROR property={property} violation did not reproduce (nondeterminism): {} history={}",
                    v.what,
                    serde_json::to_string(h).unwrap_or_default()
                );
                cleanup_scratch();
                return 2;
            }
            // a recovery verdict is about the WHOLE fair continuation: dropping events from it
            // would turn a fair schedule into an unfair one
            let min = if h.iter().any(|e| matches!(e, Event::AssertRecovered(_))) { h.clone() } else { minimise(&spec.opts, spec.prefix.len(), h, v) };
            nviol += 1;
            let name = format!("{}-{}-{}", tier, spec.name, nviol);
            let path = crate::evidence::write_replay(
                property,
                &name,
                &json!({"property": property, "violation": v.what, "run": spec.name, "opts": spec.opts,
                        "events": min, "original_length": h.len()}),
            );
            let _ = writeln!(out, "VIOLATION property={property} replay={path}");
            let _ = writeln!(out, "  {}", v.what);
            replay_paths.push(path);
            exit = 1;
        }
        if r.pruned_known > 0 {
            for g in &known {
                if !known_hit.contains(&g.finding.id) {
                    known_hit.push(g.finding.id.clone());
                }
            }
        }
    }
    for g in &known {
        if known_hit.contains(&g.finding.id) {
            let _ = writeln!(out, "KNOWN-FINDING: property={property} {} ({})", g.finding.description, g.finding.id);
        }
    }

    // evidence
    let states: u64 = results.iter().map(|(_, r)| r.states).sum();
    let transitions: u64 = results.iter().map(|(_, r)| r.transitions).sum();
    let paths: u64 = results.iter().map(|(_, r)| r.paths).sum();
    let capped: Vec<&str> = results.iter().filter(|(_, r)| r.capped).map(|(s, _)| s.name.as_str()).collect();
    let mut cov = serde_json::Map::new();
    cov.insert("states".into(), json!(states.max(1)));
    cov.insert("transitions".into(), json!(transitions.max(1)));
    cov.insert("traces_validated_against_impl".into(), json!(paths));
    cov.insert(
        "explanation".into(),
        json!("The model is the implementation: every explored transition executes the real d-engine handlers on real Raft/BufferedRaftLog/RaftMembership objects; traces_validated_against_impl counts the complete explored paths (each is an implementation trace by construction)."),
    );
    let samples: Vec<serde_json::Value> = results
        .iter()
        .flat_map(|(s, r)| r.samples.iter().take(2).map(move |h| json!({"run": s.name, "events": h})))
        .collect();
    cov.insert("samples".into(), if samples.is_empty() { json!([{"note":"no complete path"}]) } else { json!(samples) });
    cov.insert("exhaustive".into(), json!(capped.is_empty()));
    cov.insert("capped_runs".into(), json!(capped));
    cov.insert(
        "runs".into(),
        json!(results
            .iter()
            .map(|(s, r)| json!({
                "name": s.name, "max_depth": r.max_depth, "max_deviations": r.max_devs,
                "states": r.states, "transitions": r.transitions, "complete_paths": r.paths,
                "re_executions": r.replays, "events_executed": r.events_executed,
                "max_depth_reached": r.max_depth_seen, "distinct_outcomes": r.outcomes,
                "hit_time_cap": r.capped, "pruned_by_known_finding": r.pruned_known,
                "wall_s": r.wall_s, "prefix_len": s.prefix.len(),
                "voters": s.opts.voters, "learners": s.opts.learners,
            }))
            .collect::<Vec<_>>()),
    );
    cov.insert("threads".into(), json!(threads()));
    cov.insert("regression_replays_run".into(), json!(regress_run));
    cov.insert("known_findings_armed".into(), json!(known.iter().map(|g| g.finding.id.clone()).collect::<Vec<_>>()));
    cov.insert("violation_replays".into(), json!(replay_paths));
    let mut assumptions: Vec<String> = vec![
        "A1 untimed mode: any subset of nodes may time out in any order (validated configuration with a wide election range)".into(),
        "A2 clocks are perfect and shared".into(),
        "A3 interleavings inside one handler invocation and machine-level thread interleavings are not explored".into(),
        "A4 bounded domains: the stated node counts, depths and deviation budgets".into(),
        "A5 tokio, crossbeam-skiplist, dashmap are trusted".into(),
        "elections are atomic w.r.t. other events (a candidate blocks in its vote broadcast exactly as in production; peers answer in ascending id order)".into(),
        "replication streams are FIFO and reliable until broken (gRPC bidi stream); storage engine and state machine are the ideal in-memory ones (engine defects are decided by storemc/smmc)".into(),
    ];
    assumptions.extend(extra_assumptions.iter().map(|s| s.to_string()));
    Evidence {
        property: property.to_string(),
        tier: tier.to_string(),
        level: "model_checking".into(),
        coverage: cov,
        assumptions,
        wall_s: t0.elapsed().as_secs_f64(),
        violations: nviol,
    }
    .write();
    cleanup_scratch();
    exit
}
