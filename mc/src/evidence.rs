//! Evidence files (/verif/evidence/<id>.json, schema /root/.vp/EVIDENCE.schema.json).

use serde_json::Value;
use serde_json::json;

pub fn seed() -> i64 {
    std::env::var("VERIF_SEED").ok().and_then(|s| s.parse().ok()).unwrap_or(0)
}

pub struct Evidence {
    pub property: String,
    pub tier: String,
    pub level: String,
    pub coverage: serde_json::Map<String, Value>,
    pub assumptions: Vec<String>,
    pub wall_s: f64,
    pub violations: i64,
}

impl Evidence {
    pub fn write(&self) {
        let root = crate::known::verif_root();
        let dir = root.join("evidence");
        let _ = std::fs::create_dir_all(&dir);
        let v = json!({
            "property_id": self.property,
            "tier": self.tier,
            "seed": seed(),
            "level": self.level,
            "coverage": Value::Object(self.coverage.clone()),
            "assumptions": self.assumptions,
            "wall_s": self.wall_s,
            "violations": self.violations,
        });
        let p = dir.join(format!("{}.json", self.property));
        let tmp = dir.join(format!("{}.json.tmp", self.property));
        std::fs::write(&tmp, serde_json::to_string_pretty(&v).unwrap()).expect("write evidence");
        std::fs::rename(&tmp, &p).expect("rename evidence");
    }
}

/// Write a replay file and return its path (relative paths are under /verif/replays/<id>/).
pub fn write_replay(property: &str, name: &str, content: &Value) -> String {
    let root = crate::known::verif_root();
    let dir = root.join("replays").join(property);
    let _ = std::fs::create_dir_all(&dir);
    let p = dir.join(format!("{name}.json"));
    std::fs::write(&p, serde_json::to_string_pretty(content).unwrap()).expect("write replay");
    p.display().to_string()
}
