//! Stateless-with-fingerprints explorer for the cluster model.
//!
//! A state is the event history that reaches it; `build(history)` re-executes it on fresh
//! objects. DFS re-executes the history for every child (no live cluster is kept across the
//! exploration of a sibling, see `dfs`). A visited table keyed by a 128-bit fingerprint stores the best
//! (depth, deviations) budget a state was expanded with; a state is expanded again only when it
//! is reached with a strictly better budget.

use std::collections::HashMap;
use std::sync::Arc;
use std::sync::Mutex;
use std::sync::atomic::AtomicBool;
use std::sync::atomic::AtomicU64;
use std::sync::atomic::Ordering;
use std::time::Instant;

use crate::simkit::cluster::Cluster;
use crate::simkit::cluster::Event;
use crate::simkit::cluster::Opts;
use crate::simkit::cluster::Violation;
use crate::simkit::menu::Menu;

pub struct Shared {
    pub visited: Vec<Mutex<HashMap<u128, Vec<(u16, u16)>>>>,
    pub states: AtomicU64,
    pub transitions: AtomicU64,
    pub replays: AtomicU64,
    pub events_executed: AtomicU64,
    pub paths: AtomicU64,
    pub max_depth_seen: AtomicU64,
    pub stop: AtomicBool,
    pub capped: AtomicBool,
    pub found: Mutex<Vec<(Violation, Vec<Event>)>>,
    pub outcomes: Mutex<std::collections::BTreeMap<String, u64>>,
    pub samples: Mutex<Vec<Vec<Event>>>,
    pub errors: Mutex<Vec<String>>,
    pub pruned_known: AtomicU64,
}

impl Shared {
    pub fn new() -> Arc<Shared> {
        Arc::new(Shared {
            visited: (0..256).map(|_| Mutex::new(HashMap::new())).collect(),
            states: AtomicU64::new(0),
            transitions: AtomicU64::new(0),
            replays: AtomicU64::new(0),
            events_executed: AtomicU64::new(0),
            paths: AtomicU64::new(0),
            max_depth_seen: AtomicU64::new(0),
            stop: AtomicBool::new(false),
            capped: AtomicBool::new(false),
            found: Mutex::new(vec![]),
            outcomes: Mutex::new(Default::default()),
            samples: Mutex::new(vec![]),
            errors: Mutex::new(vec![]),
            pruned_known: AtomicU64::new(0),
        })
    }

    /// true if the state should be expanded with this budget
    pub fn visit(&self, fp: u128, depth: u16, devs: u16) -> bool {
        let shard = (fp as usize) & 255;
        let mut g = self.visited[shard].lock().unwrap();
        match g.get_mut(&fp) {
            None => {
                g.insert(fp, vec![(depth, devs)]);
                self.states.fetch_add(1, Ordering::Relaxed);
                true
            }
            Some(front) => {
                // Pareto front of budgets the state was expanded with: skip only if some earlier
                // expansion had at least as much depth AND deviation budget left
                if front.iter().any(|(d0, v0)| *d0 <= depth && *v0 <= devs) {
                    false
                } else {
                    front.retain(|(d0, v0)| !(depth <= *d0 && devs <= *v0));
                    front.push((depth, devs));
                    true
                }
            }
        }
    }
}

#[derive(Clone)]
pub struct Bounds {
    pub max_depth: usize,
    pub max_devs: usize,
    pub deadline: Option<Instant>,
    pub properties: Vec<String>,
    pub stop_at_first: bool,
}

pub struct Explorer {
    pub opts: Opts,
    pub menu: Menu,
    pub prefix: Vec<Event>,
    pub bounds: Bounds,
    pub shared: Arc<Shared>,
    pub scratch: std::path::PathBuf,
    /// guards of known findings: a state in which one fires is not expanded
    pub known_guards: Vec<crate::known::Guard>,
}

pub async fn build(
    opts: &Opts,
    scratch: &std::path::Path,
    history: &[Event],
    shared: Option<&Shared>,
) -> Result<Cluster, String> {
    let mut c = Cluster::new(opts.clone(), scratch.to_path_buf()).await?;
    for ev in history {
        crate::simkit::cluster_ext::apply_any(&mut c, ev).await.map_err(|e| format!("replay of {ev:?}: {e}"))?;
        crate::simkit::cluster_ext::check_global(&mut c).await;
    }
    if let Some(s) = shared {
        s.replays.fetch_add(1, Ordering::Relaxed);
        s.events_executed.fetch_add(history.len() as u64, Ordering::Relaxed);
    }
    Ok(c)
}

impl Explorer {
    fn relevant(&self, v: &Violation) -> bool {
        self.bounds.properties.is_empty() || self.bounds.properties.iter().any(|p| *p == v.property)
    }

    /// Depth-first exploration below `history` (which already includes the prefix).
    /// `cluster` is the live state for `history`.
    pub fn dfs<'a>(
        &'a self,
        history: &'a mut Vec<Event>,
        cluster: Cluster,
        devs: usize,
    ) -> std::pin::Pin<Box<dyn std::future::Future<Output = Result<(), String>> + 'a>> {
        Box::pin(async move {
            if self.shared.stop.load(Ordering::Relaxed) {
                return Ok(());
            }
            if let Some(d) = self.bounds.deadline {
                if Instant::now() >= d {
                    self.shared.capped.store(true, Ordering::Relaxed);
                    self.shared.stop.store(true, Ordering::Relaxed);
                    return Ok(());
                }
            }
            let depth = history.len() - self.prefix.len();
            self.shared.max_depth_seen.fetch_max(depth as u64, Ordering::Relaxed);
            let enabled = if depth >= self.bounds.max_depth {
                vec![]
            } else {
                self.menu.enabled(&cluster, devs, self.bounds.max_devs)
            };
            if enabled.is_empty() {
                // ---- end of a path: the run's closure (time passes / faults stop), if any
                let mut cluster = cluster;
                if self.menu.closure != crate::simkit::menu::Closure::None && cluster.stuck.is_none() {
                    let before = cluster.oracle.violations.len();
                    let extra = crate::simkit::cluster_ext::closure(&mut cluster, self.menu.closure)
                        .await
                        .map_err(|e| format!("closure after {history:?}: {e}"))?;
                    self.shared.events_executed.fetch_add(extra.len() as u64, Ordering::Relaxed);
                    let new: Vec<Violation> = cluster.oracle.violations[before..].to_vec();
                    for v in new {
                        if !self.relevant(&v) {
                            continue;
                        }
                        if self.known_guards.iter().any(|g| g.matches(&v, &cluster)) {
                            self.shared.pruned_known.fetch_add(1, Ordering::Relaxed);
                            continue;
                        }
                        let mut h = history.clone();
                        h.extend(extra.iter().cloned());
                        let mut f = self.shared.found.lock().unwrap();
                        if !f.iter().any(|(x, _)| x.property == v.property && x.what == v.what) {
                            f.push((v, h));
                        }
                    }
                }
                self.shared.paths.fetch_add(1, Ordering::Relaxed);
                let key = crate::simkit::cluster_ext::outcome_key(&cluster);
                *self.shared.outcomes.lock().unwrap().entry(key).or_insert(0) += 1;
                let mut s = self.shared.samples.lock().unwrap();
                if s.len() < 4 {
                    s.push(history.clone());
                }
                return Ok(());
            }
            // All clusters of a worker share one paused tokio clock (every quiescence wait lets
            // 1 ms of virtual time pass), and a cluster that sat idle while the subtrees of its
            // siblings were explored would find its own timers overdue - in timed mode at once,
            // in untimed mode after about an hour of accumulated virtual time (the 'never fires'
            // deadlines of the untimed configuration), i.e. after minutes of exploration. So a
            // cluster is never kept across another cluster's execution: every child is rebuilt
            // from the history, and every explored state is a function of its history alone.
            drop(cluster);
            for (ev, cost) in enabled.into_iter() {
                if self.shared.stop.load(Ordering::Relaxed) {
                    return Ok(());
                }
                let mut c = build(&self.opts, &self.scratch, history, Some(&self.shared)).await?;
                let before = c.oracle.violations.len();
                crate::simkit::cluster_ext::apply_any(&mut c, &ev)
                    .await
                    .map_err(|e| format!("apply {ev:?} after {history:?}: {e}"))?;
                crate::simkit::cluster_ext::check_global(&mut c).await;
                self.shared.transitions.fetch_add(1, Ordering::Relaxed);
                self.shared.events_executed.fetch_add(1, Ordering::Relaxed);
                history.push(ev);
                let new: Vec<Violation> = c.oracle.violations[before..].to_vec();
                let mut stop_here = false;
                for v in new {
                    if !self.relevant(&v) {
                        continue;
                    }
                    if self.known_guards.iter().any(|g| g.matches(&v, &c)) {
                        self.shared.pruned_known.fetch_add(1, Ordering::Relaxed);
                        stop_here = true;
                        continue;
                    }
                    let mut f = self.shared.found.lock().unwrap();
                    if !f.iter().any(|(x, _)| x.property == v.property && x.what == v.what) {
                        f.push((v, history.clone()));
                    }
                    stop_here = true;
                    if self.bounds.stop_at_first {
                        self.shared.stop.store(true, Ordering::Relaxed);
                    }
                }
                // a state in which an armed known-finding guard holds is not expanded
                if !stop_here && self.known_guards.iter().any(|g| g.state_matches(&c)) {
                    self.shared.pruned_known.fetch_add(1, Ordering::Relaxed);
                    stop_here = true;
                }
                if !stop_here {
                    let fp = c.fingerprint().await;
                    let nd = devs + cost;
                    if self.shared.visit(fp, (depth + 1) as u16, nd as u16) {
                        self.dfs(history, c, nd).await?;
                    }
                }
                history.pop();
            }
            Ok(())
        })
    }
}
