//! C36: merging queued AppendEntries does not change the outcome.
//!
//! Differential run on a real follower node (real `Raft` loop body incl. the private
//! `merge_append_entries`): run A delivers the queued requests one per turn, run B queues all of
//! them before a single turn. Log, commit index and the acknowledgement of every sender are
//! compared.

use std::io::Write;
use std::time::Instant;

use d_engine_core::InboundEvent;
use d_engine_core::MaybeCloneOneshot;
use d_engine_core::RaftOneshot;
use d_engine_proto::server::replication::AppendEntriesRequest;
use d_engine_proto::server::replication::AppendEntriesResponse;
use d_engine_proto::server::replication::append_entries_response;
use futures::FutureExt;
use serde_json::json;

use crate::evidence::Evidence;
use crate::gridkit::Findings;
use crate::logkit::noop_entry;
use crate::runner;
use crate::simkit::cluster::Cluster;
use crate::simkit::cluster::Opts;

#[derive(Clone, Debug, PartialEq)]
enum Ack {
    Success(u64, u64),
    Conflict(Option<u64>, Option<u64>),
    HigherTerm(u64),
    None,
}

fn ack_of(r: &AppendEntriesResponse) -> Ack {
    match &r.result {
        Some(append_entries_response::Result::Success(s)) => {
            let m = s.last_match.unwrap_or_default();
            Ack::Success(m.index, m.term)
        }
        Some(append_entries_response::Result::Conflict(c)) => Ack::Conflict(c.conflict_term, c.conflict_index),
        Some(append_entries_response::Result::HigherTerm(t)) => Ack::HigherTerm(*t),
        None => Ack::None,
    }
}

/// leader log used to cut requests from: (index, term)
const LEADER: [(u64, u64); 6] = [(1, 1), (2, 1), (3, 2), (4, 2), (5, 2), (6, 2)];

fn req(term: u64, prev: u64, n: u64, skip: u64, commit: u64) -> AppendEntriesRequest {
    let prev_term = LEADER.iter().find(|e| e.0 == prev).map(|e| e.1).unwrap_or(0);
    let entries = (0..n)
        .map(|d| {
            let idx = prev + 1 + skip + d;
            let t = LEADER.iter().find(|e| e.0 == idx).map(|e| e.1).unwrap_or(2);
            noop_entry(idx, t)
        })
        .collect();
    AppendEntriesRequest {
        term,
        leader_id: 1,
        prev_log_index: prev,
        prev_log_term: prev_term,
        entries,
        leader_commit_index: commit,
    }
}

struct Outcome {
    log: Vec<(u64, u64)>,
    commit: u64,
    term: u64,
    acks: Vec<Ack>,
}

async fn run_case(
    base: &[(u64, u64)],
    queue: &[AppendEntriesRequest],
    merged: bool,
    max_merge: usize,
    scratch: &std::path::Path,
) -> Result<Outcome, String> {
    let mut opts = Opts::default();
    opts.max_merge = max_merge;
    let mut c = Cluster::new(opts, scratch.to_path_buf()).await?;
    // bring node 2 to the base log as a follower of leader 1 in term 2
    let etx = c.node(2).unwrap().event_tx.clone();
    if !base.is_empty() {
        let (tx, _rx) = MaybeCloneOneshot::new();
        let r = AppendEntriesRequest {
            term: 2,
            leader_id: 1,
            prev_log_index: 0,
            prev_log_term: 0,
            entries: base.iter().map(|(i, t)| noop_entry(*i, *t)).collect(),
            leader_commit_index: 0,
        };
        etx.try_send(InboundEvent::AppendEntries(r, vec![tx])).map_err(|e| e.to_string())?;
        c.settle_node(2).await?;
    }
    let mut rxs = vec![];
    for r in queue {
        let (tx, rx) = MaybeCloneOneshot::new();
        etx.try_send(InboundEvent::AppendEntries(r.clone(), vec![tx])).map_err(|e| e.to_string())?;
        rxs.push(rx);
        if !merged {
            c.settle_node(2).await?;
        }
    }
    if merged {
        c.settle_node(2).await?;
    }
    let mut acks = vec![];
    for rx in rxs.iter_mut() {
        acks.push(match rx.now_or_never() {
            Some(Ok(Ok(r))) => ack_of(&r),
            _ => Ack::None,
        });
    }
    let v = c.node(2).unwrap().view().await;
    if std::env::var("C36_DEBUG").is_ok() {
        eprintln!("merged={merged} notes={:?} fatal={} acks={:?}", c.oracle.notes, v.fatal, acks);
    }
    Ok(Outcome { log: v.log.iter().map(|e| (e.index, e.term)).collect(), commit: v.commit, term: v.term, acks })
}

pub fn run(tier: &str, out: &mut std::fs::File) -> i32 {
    let t0 = Instant::now();
    let maxq = if tier == "thorough" { 3 } else { 3 };
    let bases: Vec<(&str, Vec<(u64, u64)>)> = vec![
        ("empty", vec![]),
        ("matching-3", vec![(1, 1), (2, 1), (3, 2)]),
        ("stale-tail", vec![(1, 1), (2, 1), (3, 1), (4, 1)]),
    ];
    let mut findings = Findings::new("C36");
    let mut cases = 0u64;
    let mut merged_differently = 0u64;
    let mut samples = vec![];
    let scratch = runner::scratch_root().join("c36");
    let _ = std::fs::create_dir_all(&scratch);
    let rt = runner::paused_rt(0);
    let res: Result<(), String> = rt.block_on(async {
        for (bname, base) in &bases {
            let p = if base.is_empty() { 0 } else { 2 }; // a prev that matches every base
            // alphabet relative to the match point p
            let mut alphabet: Vec<(&str, AppendEntriesRequest)> = vec![
                ("heartbeat", req(2, p, 0, 0, 0)),
                ("heartbeat-commit+2", req(2, p, 0, 0, p + 2)),
                ("batch-1", req(2, p, 1, 0, 0)),
                ("batch-2-commit+1", req(2, p, 2, 0, p + 1)),
                ("next-batch-1", req(2, p + 1, 1, 0, p + 1)),
                ("next-batch-after-2", req(2, p + 2, 1, 0, p + 3)),
                ("heartbeat-after-1", req(2, p + 1, 0, 0, p + 1)),
                ("newer-term-batch", req(3, p, 1, 0, 0)),
                ("stale-term-heartbeat", req(1, p, 0, 0, 0)),
            ];
            if tier != "thorough" {
                alphabet.truncate(8);
            }
            let n = alphabet.len();
            let mut queues: Vec<Vec<usize>> = vec![];
            for a in 0..n {
                queues.push(vec![a]);
                for b in 0..n {
                    queues.push(vec![a, b]);
                    if maxq >= 3 {
                        for c in 0..n {
                            queues.push(vec![a, b, c]);
                        }
                    }
                }
            }
            for limit in [2usize, 1000] {
                for q in &queues {
                    let reqs: Vec<AppendEntriesRequest> = q.iter().map(|i| alphabet[*i].1.clone()).collect();
                    // one leader's commit index never goes back between consecutive requests
                    if reqs
                        .windows(2)
                        .any(|w| w[0].term == w[1].term && w[1].leader_commit_index < w[0].leader_commit_index)
                    {
                        continue;
                    }
                    let names: Vec<&str> = q.iter().map(|i| alphabet[*i].0).collect();
                    let a = run_case(base, &reqs, false, limit, &scratch).await?;
                    let b = run_case(base, &reqs, true, limit, &scratch).await?;
                    cases += 1;
                    let case = json!({"base": bname, "queue": names, "max_merge_entries": limit,
                        "one_at_a_time": {"log": a.log, "commit": a.commit, "term": a.term, "acks": format!("{:?}", a.acks)},
                        "merged": {"log": b.log, "commit": b.commit, "term": b.term, "acks": format!("{:?}", b.acks)}});
                    if samples.len() < 3 && q.len() == 3 {
                        samples.push(case.clone());
                    }
                    if a.acks != b.acks {
                        merged_differently += 1;
                    }
                    if a.log != b.log {
                        findings.report("merged processing leaves a different log than one-at-a-time processing", case.clone());
                    }
                    if a.commit != b.commit {
                        findings.report("merged processing leaves a different commit index than one-at-a-time processing", case.clone());
                    }
                    // acknowledgements: same kind for every sender; a success may carry a later
                    // match point (the merged batch's), never an earlier one and never beyond
                    // what one-at-a-time processing reached
                    let final_match = a
                        .acks
                        .iter()
                        .filter_map(|x| if let Ack::Success(i, _) = x { Some(*i) } else { None })
                        .max()
                        .unwrap_or(0);
                    for (k, (x, y)) in a.acks.iter().zip(b.acks.iter()).enumerate() {
                        let ok = match (x, y) {
                            // never claims more than one-at-a-time processing ends up holding
                            (Ack::Success(i, _), Ack::Success(j, _)) => *j <= final_match.max(*i),
                            (p, q) => p == q,
                        };
                        if !ok {
                            findings.report(
                                &format!(
                                    "a sender gets a different acknowledgement when its request is merged ({} vs {})",
                                    kind(x),
                                    kind(y)
                                ),
                                json!({"sender": k, "case": case}),
                            );
                        }
                    }
                }
            }
        }
        Ok(())
    });
    if let Err(e) = res {
        let _ = writeln!(out, "MACHINERY-ERROR property=C36 {e}");
        runner::cleanup_scratch();
        return 2;
    }
    let exit = findings.finish(out);
    let mut cov = serde_json::Map::new();
    cov.insert("states".into(), json!(cases.max(1)));
    cov.insert("transitions".into(), json!((cases * 2).max(1)));
    cov.insert("traces_validated_against_impl".into(), json!(cases * 2));
    cov.insert("samples".into(), json!(samples));
    cov.insert("exhaustive".into(), json!(true));
    cov.insert("queues_where_merging_changed_some_ack".into(), json!(merged_differently));
    cov.insert("distinct_disagreement_classes".into(), json!(findings.classes()));
    cov.insert("known_findings_hit".into(), json!(findings.known_hit()));
    cov.insert("explanation".into(), json!("All queues of length 1..3 over the request alphabet (heartbeats, contiguous, overlapping and non-adjacent batches, commit bumps, newer and stale term), 3 follower base logs, merge limit 2 and 1000; each queue is executed twice on a real follower node (real Raft loop body: one request per turn vs all queued before one turn, which goes through merge_append_entries) and log, commit index and per-sender acknowledgements are compared."));
    Evidence {
        property: "C36".into(),
        tier: tier.into(),
        level: "model_checking".into(),
        coverage: cov,
        assumptions: vec![
            "acknowledgement oracle: same kind per sender; a merged success may report a different match point as long as it never exceeds what one-at-a-time processing ends up holding (the leader keeps match_index monotone); leader_commit_index is non-decreasing within one term (FIFO stream of one leader)".into(),
        ],
        wall_s: t0.elapsed().as_secs_f64(),
        violations: findings.new_violations() as i64,
    }
    .write();
    runner::cleanup_scratch();
    exit
}

fn kind(a: &Ack) -> &'static str {
    match a {
        Ack::Success(..) => "success",
        Ack::Conflict(..) => "conflict",
        Ack::HigherTerm(_) => "higher-term",
        Ack::None => "none",
    }
}
