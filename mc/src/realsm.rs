//! A `TypeConfig` whose state machine is the REAL File / RocksDB engine behind a thin delegating
//! wrapper (`WrapSm`). The wrapper adds nothing to the behaviour; it lets the harness (a) use one
//! concrete type for both engines, (b) observe `apply_chunk` inputs and (c) run a piece of harness
//! code at the boundary between two StateMachine calls of one d-engine operation (e.g. between
//! `last_applied()` and `generate_snapshot_data()` inside `create_snapshot`), which is exactly
//! where another thread may run in production.

use std::path::Path;
use std::path::PathBuf;
use std::sync::Arc;
use std::sync::Mutex;
use std::sync::atomic::AtomicUsize;

use async_trait::async_trait;
use bytes::Bytes;
use d_engine_core::ApplyEntry;
use d_engine_core::ApplyResult;
use d_engine_core::BufferedRaftLog;
use d_engine_core::DefaultCommitHandler;
use d_engine_core::DefaultPurgeExecutor;
use d_engine_core::DefaultStateMachineHandler;
use d_engine_core::ElectionHandler;
use d_engine_core::Error;
use d_engine_core::LogSizePolicy;
use d_engine_core::RaftNodeConfig;
use d_engine_core::ReplicationHandler;
use d_engine_core::ScanResult;
use d_engine_core::SnapshotConfig;
use d_engine_core::StateMachine;
use d_engine_core::TypeConfig;
use d_engine_proto::common::LogId;
use d_engine_proto::server::storage::SnapshotMetadata;
use d_engine_server::storage::TtlLease;
use d_engine_server::verif_exports::RaftMembership;

use crate::simkit::net::SimTransport;
use crate::simkit::store::SimStorageEngine;
use crate::smkit::Engine;
use crate::smkit::Opened;

pub struct WrapSm {
    pub inner: Arc<dyn StateMachine>,
    pub lease: Arc<TtlLease>,
    pub engine: Engine,
    /// when set, generate_snapshot_data() first announces itself on `generate_started` and
    /// then waits (bounded) for `resume_generate`: the window in which another thread runs
    pub pause_in_generate: std::sync::atomic::AtomicBool,
    pub generate_started: tokio::sync::Notify,
    pub resume_generate: tokio::sync::Notify,
    /// when set, the next apply_chunk() announces itself on `apply_started` and waits (bounded)
    /// for `resume_apply` before touching the engine: an apply that is "in flight"
    pub pause_in_apply: std::sync::atomic::AtomicBool,
    pub apply_started: tokio::sync::Notify,
    pub resume_apply: tokio::sync::Notify,
    /// every apply_chunk input, in call order
    pub applied: Mutex<Vec<Vec<ApplyEntry>>>,
}

impl std::fmt::Debug for WrapSm {
    fn fmt(&self, f: &mut std::fmt::Formatter<'_>) -> std::fmt::Result {
        write!(f, "WrapSm({})", self.engine.name())
    }
}

impl WrapSm {
    pub fn new(o: Opened, engine: Engine) -> Arc<WrapSm> {
        Arc::new(WrapSm { inner: o.sm, lease: o.lease, engine, pause_in_generate: std::sync::atomic::AtomicBool::new(false), generate_started: tokio::sync::Notify::new(), resume_generate: tokio::sync::Notify::new(), pause_in_apply: std::sync::atomic::AtomicBool::new(false), apply_started: tokio::sync::Notify::new(), resume_apply: tokio::sync::Notify::new(), applied: Mutex::new(vec![]) })
    }
}

#[async_trait]
impl StateMachine for WrapSm {
    async fn start(&self) -> Result<(), Error> {
        self.inner.start().await
    }
    fn stop(&self) -> Result<(), Error> {
        self.inner.stop()
    }
    fn close_storage(&self) {
        self.inner.close_storage()
    }
    fn is_running(&self) -> bool {
        self.inner.is_running()
    }
    fn get(&self, key_buffer: &[u8]) -> Result<Option<Bytes>, Error> {
        self.inner.get(key_buffer)
    }
    fn get_multi(&self, keys: &[Bytes]) -> Result<Vec<Option<Bytes>>, Error> {
        self.inner.get_multi(keys)
    }
    fn entry_term(&self, entry_id: u64) -> Option<u64> {
        self.inner.entry_term(entry_id)
    }
    async fn apply_chunk(&self, chunk: &[ApplyEntry]) -> Result<Vec<ApplyResult>, Error> {
        self.applied.lock().unwrap().push(chunk.to_vec());
        if self.pause_in_apply.swap(false, std::sync::atomic::Ordering::SeqCst) {
            self.apply_started.notify_one();
            let _ = tokio::time::timeout(std::time::Duration::from_millis(500), self.resume_apply.notified()).await;
        }
        self.inner.apply_chunk(chunk).await
    }
    fn len(&self) -> usize {
        self.inner.len()
    }
    fn update_last_applied(&self, last_applied: LogId) {
        self.inner.update_last_applied(last_applied)
    }
    fn last_applied(&self) -> LogId {
        self.inner.last_applied()
    }
    fn persist_last_applied(&self, last_applied: LogId) -> Result<(), Error> {
        self.inner.persist_last_applied(last_applied)
    }
    fn update_last_snapshot_metadata(&self, m: &SnapshotMetadata) -> Result<(), Error> {
        self.inner.update_last_snapshot_metadata(m)
    }
    fn snapshot_metadata(&self) -> Option<SnapshotMetadata> {
        self.inner.snapshot_metadata()
    }
    fn persist_last_snapshot_metadata(&self, m: &SnapshotMetadata) -> Result<(), Error> {
        self.inner.persist_last_snapshot_metadata(m)
    }
    async fn apply_snapshot_from_file(&self, metadata: &SnapshotMetadata, snapshot_path: PathBuf) -> Result<(), Error> {
        self.inner.apply_snapshot_from_file(metadata, snapshot_path).await
    }
    async fn generate_snapshot_data(&self, new_snapshot_dir: PathBuf, last_included: LogId) -> Result<Bytes, Error> {
        if self.pause_in_generate.swap(false, std::sync::atomic::Ordering::SeqCst) {
            // another thread (the apply worker) gets to run between the handler's
            // last_applied() read and the data copy; bounded wait in case it is blocked
            self.generate_started.notify_one();
            let _ = tokio::time::timeout(std::time::Duration::from_millis(150), self.resume_generate.notified()).await;
        }
        self.inner.generate_snapshot_data(new_snapshot_dir, last_included).await
    }
    fn save_hard_state(&self) -> Result<(), Error> {
        self.inner.save_hard_state()
    }
    fn flush(&self) -> Result<(), Error> {
        self.inner.flush()
    }
    async fn flush_async(&self) -> Result<(), Error> {
        self.inner.flush_async().await
    }
    async fn reset(&self) -> Result<(), Error> {
        self.inner.reset().await
    }
    fn scan_prefix(&self, prefix: &[u8]) -> Result<ScanResult, Error> {
        self.inner.scan_prefix(prefix)
    }
    async fn lease_background_cleanup(&self) -> Result<Vec<Bytes>, Error> {
        self.inner.lease_background_cleanup().await
    }
}

#[derive(Debug)]
pub struct RealT;

impl TypeConfig for RealT {
    type SE = SimStorageEngine;
    type SM = WrapSm;
    type R = BufferedRaftLog<Self>;
    type M = RaftMembership<Self>;
    type TR = SimTransport<Self>;
    type E = ElectionHandler<Self>;
    type REP = ReplicationHandler<Self>;
    type C = DefaultCommitHandler<Self>;
    type SMH = DefaultStateMachineHandler<Self>;
    type SNP = LogSizePolicy;
    type PE = DefaultPurgeExecutor<Self>;
}

pub fn snapshot_config(snapshots_dir: &Path, retained: u64, chunk_size: usize) -> SnapshotConfig {
    let mut c = RaftNodeConfig::default().raft.snapshot.clone();
    c.enable = true;
    c.snapshots_dir = snapshots_dir.to_path_buf();
    c.retained_log_entries = retained;
    c.chunk_size = chunk_size;
    c.max_log_entries_before_snapshot = 1_000_000;
    c.cleanup_retain_count = 2;
    c.receive_chunk_timeout_in_sec = 5;
    c
}

pub fn handler(node_id: u32, sm: Arc<WrapSm>, cfg: SnapshotConfig) -> Arc<DefaultStateMachineHandler<RealT>> {
    let _ = std::fs::create_dir_all(&cfg.snapshots_dir);
    let policy = LogSizePolicy::new(cfg.max_log_entries_before_snapshot, cfg.snapshot_cool_down_since_last_check);
    Arc::new(DefaultStateMachineHandler::<RealT>::new(
        node_id,
        sm.last_applied().index,
        sm,
        cfg,
        policy,
        None,
        Arc::new(AtomicUsize::new(0)),
    ))
}
