//! C25: a prefix scan returns exactly the keys with that prefix, with values equal to the state
//! after applying all entries up to the revision it reports.
//!
//! Part 1 (inputs): every subset of 0xFF-boundary key sets x every prefix, sequentially, both
//! engines (result == reference filter, revision == last applied index).
//! Part 2 (schedules): one scanner and one applier. The state machines publish data and the
//! applied index in separate steps and scans read them in separate steps; the harness runs the
//! OTHER activity at every point between those steps (guarded yield points that call back into
//! the harness), which enumerates every interleaving of the two at those points.

use std::cell::RefCell;
use std::collections::BTreeMap;
use std::sync::Arc;
use std::time::Instant;

use bytes::Bytes;
use d_engine_core::Command;
use d_engine_core::StateMachine;
use serde_json::json;

use crate::evidence::Evidence;
use crate::gridkit::Findings;
use crate::runner;
use crate::smkit::*;

struct Race {
    sm: Arc<dyn StateMachine>,
    /// label at which the other activity runs
    at: &'static str,
    /// what runs there
    what: RaceOp,
    fired: bool,
    /// the other activity did not finish within the grace period: it is blocked by a lock the
    /// outer activity holds and completes once that is released
    blocked: bool,
    pending: Option<std::sync::mpsc::Receiver<Option<(Vec<(Vec<u8>, Vec<u8>)>, u64)>>>,
    scan_result: Option<(Vec<(Vec<u8>, Vec<u8>)>, u64)>,
}

#[derive(Clone)]
enum RaceOp {
    Scan(Vec<u8>),
    Apply(Vec<d_engine_core::ApplyEntry>),
}

thread_local! {
    static RACE: RefCell<Option<Race>> = const { RefCell::new(None) };
}

/// The other activity runs on its own thread, started exactly at the yield point. If it
/// finishes within the grace period it ran *there*; if not, it is blocked on a lock of the
/// outer activity and finishes afterwards (that, too, is a real schedule).
fn hook(label: &'static str) {
    let taken = RACE.with(|r| {
        let mut g = r.borrow_mut();
        match g.as_ref() {
            Some(x) if x.at == label && !x.fired => g.take(),
            _ => None,
        }
    });
    let Some(mut race) = taken else { return };
    race.fired = true;
    let (tx, rx) = std::sync::mpsc::channel();
    let sm = race.sm.clone();
    let what = race.what.clone();
    std::thread::spawn(move || {
        let r = match what {
            RaceOp::Scan(prefix) => sm.scan_prefix(&prefix).ok().map(|s| {
                let mut e: Vec<(Vec<u8>, Vec<u8>)> = s.entries.into_iter().map(|(k, v)| (k.to_vec(), v.to_vec())).collect();
                e.sort();
                (e, s.revision)
            }),
            RaceOp::Apply(entries) => {
                // the RocksDB apply path has no real await point: a plain executor is enough
                let _ = futures::executor::block_on(sm.apply_chunk(&entries));
                None
            }
        };
        let _ = tx.send(r);
    });
    match rx.recv_timeout(std::time::Duration::from_millis(200)) {
        Ok(r) => race.scan_result = r,
        Err(_) => {
            race.blocked = true;
            race.pending = Some(rx);
        }
    }
    RACE.with(|r| *r.borrow_mut() = Some(race));
}

/// after the outer activity finished: collect a blocked inner activity
fn finish_race() -> Option<Race> {
    let mut race = RACE.with(|rc| rc.borrow_mut().take())?;
    if let Some(rx) = race.pending.take() {
        if let Ok(r) = rx.recv_timeout(std::time::Duration::from_secs(10)) {
            race.scan_result = r;
        }
    }
    Some(race)
}

fn state_of(r: &RefKv, prefix: &[u8]) -> Vec<(Vec<u8>, Vec<u8>)> {
    r.kv.iter().filter(|(k, _)| k.starts_with(prefix)).map(|(k, v)| (k.to_vec(), v.to_vec())).collect()
}

fn scan_sorted(sm: &Arc<dyn StateMachine>, prefix: &[u8]) -> Result<(Vec<(Vec<u8>, Vec<u8>)>, u64), String> {
    let s = sm.scan_prefix(prefix).map_err(|e| format!("{e:?}"))?;
    let mut e: Vec<(Vec<u8>, Vec<u8>)> = s.entries.into_iter().map(|(k, v)| (k.to_vec(), v.to_vec())).collect();
    e.sort();
    Ok((e, s.revision))
}

fn boundary_keys() -> Vec<Vec<u8>> {
    vec![vec![0x61], vec![0x61, 0x00], vec![0x61, 0xFF], vec![0x61, 0xFF, 0x00], vec![0x61, 0xFF, 0xFF], vec![0x62], vec![0xFF], vec![0xFF, 0xFF]]
}

fn prefixes() -> Vec<Vec<u8>> {
    vec![vec![0x61], vec![0x61, 0xFF], vec![0x61, 0xFF, 0xFF], vec![0xFF], vec![0xFF, 0xFF], vec![0x62], vec![0x60], vec![]]
}

pub fn run(tier: &str, out: &mut std::fs::File) -> i32 {
    use std::io::Write;
    let t0 = Instant::now();
    let thorough = tier == "thorough";
    let scratch = runner::scratch_root();
    let mut findings = Findings::new("C25");
    let rt = tokio::runtime::Builder::new_current_thread().enable_all().build().unwrap();
    d_engine_server::verif_exports::set_crash_hook(Some(Arc::new(hook)));
    let mut seq_cases = 0u64;
    let mut schedules = 0u64;
    let mut blocked_schedules = 0u64;
    let mut distinct_outcomes: BTreeMap<String, u64> = BTreeMap::new();
    let mut samples = vec![];
    let res: Result<(), String> = rt.block_on(async {
        for engine in [Engine::File, Engine::Rocks] {
            let en = engine.name();
            let dir = scratch.join(format!("c25-{en}"));
            let _ = std::fs::remove_dir_all(&dir);
            let o = open(engine, &dir).await?;
            let mut next_index = 1u64;
            // ---------------- part 1: key sets x prefixes, sequential
            let ks = boundary_keys();
            let nsub: u32 = if thorough { 1 << ks.len() } else { 1 << 6 };
            for mask in 0..nsub {
                o.sm.reset().await.map_err(|e| format!("{e:?}"))?;
                let mut r = RefKv::default();
                let cmds: Vec<Command> = ks
                    .iter()
                    .enumerate()
                    .filter(|(i, _)| mask & (1 << i) != 0)
                    .map(|(i, k)| Command::Insert { key: Bytes::from(k.clone()), value: Bytes::from(vec![b'v', i as u8]), ttl_secs: None })
                    .collect();
                if !cmds.is_empty() {
                    o.sm.apply_chunk(&entries(&cmds, next_index, 1)).await.map_err(|e| format!("{e:?}"))?;
                    next_index += cmds.len() as u64;
                    for c in &cmds {
                        r.apply(c, 0);
                    }
                }
                let applied = o.sm.last_applied().index;
                for p in prefixes() {
                    seq_cases += 1;
                    let (got, rev) = scan_sorted(&o.sm, &p)?;
                    let want = state_of(&r, &p);
                    if got != want {
                        findings.report(
                            &format!("[{en}] scan_prefix with {} returns other keys/values than the state holds", if p.is_empty() { "an EMPTY prefix" } else { "a non-empty prefix" }),
                            json!({"engine": en, "keys": r.kv.keys().map(|k| k.to_vec()).collect::<Vec<_>>(), "prefix": p, "got": got, "reference": want}),
                        );
                    }
                    if rev != applied {
                        findings.report(
                            &format!("[{en}] a quiescent scan reports a revision that is not the applied index"),
                            json!({"engine": en, "revision": rev, "last_applied": applied}),
                        );
                    }
                }
            }
            // ---------------- part 2: scan vs apply at every yield point
            // (label where the OTHER activity runs, who is the outer activity)
            let points: Vec<(&'static str, bool)> = match engine {
                // outer = apply, scan runs inside it
                Engine::File => vec![("sm:apply:after_wal", true), ("sm:apply:after_memory", true), ("sm:apply:after_last_applied", true)],
                // RocksDB: scan inside apply (after the batch write), apply inside scan (after iteration)
                Engine::Rocks => vec![("sm:apply:after_write", true), ("sm:scan:after_iter", false)],
            };
            let bases: Vec<Vec<(Vec<u8>, Vec<u8>)>> = vec![
                vec![],
                vec![(b"p/a".to_vec(), b"1".to_vec())],
                vec![(b"p/a".to_vec(), b"1".to_vec()), (b"p/b".to_vec(), b"2".to_vec()), (b"q".to_vec(), b"3".to_vec())],
            ];
            let chunks: Vec<Vec<Command>> = vec![
                vec![Command::Insert { key: b(b"p/a"), value: b(b"9"), ttl_secs: None }],
                vec![Command::Insert { key: b(b"p/c"), value: b(b"9"), ttl_secs: None }],
                vec![Command::Delete { key: b(b"p/a") }],
                vec![Command::CompareAndSwap { key: b(b"p/a"), expected: Some(b(b"1")), value: b(b"8") }],
                vec![Command::Insert { key: b(b"q"), value: b(b"7"), ttl_secs: None }],
                vec![Command::Insert { key: b(b"p/a"), value: b(b"9"), ttl_secs: None }, Command::Delete { key: b(b"p/b") }],
                vec![Command::Delete { key: b(b"p/a") }, Command::Insert { key: b(b"p/d"), value: b(b"6"), ttl_secs: None }],
            ];
            let scan_prefixes: Vec<Vec<u8>> = vec![b"p/".to_vec(), b"p/a".to_vec(), b"q".to_vec()];
            for base in &bases {
                for chunk in &chunks {
                    for prefix in &scan_prefixes {
                        for (label, apply_is_outer) in &points {
                            o.sm.reset().await.map_err(|e| format!("{e:?}"))?;
                            let mut r0 = RefKv::default();
                            if !base.is_empty() {
                                let cmds: Vec<Command> = base
                                    .iter()
                                    .map(|(k, v)| Command::Insert { key: Bytes::from(k.clone()), value: Bytes::from(v.clone()), ttl_secs: None })
                                    .collect();
                                o.sm.apply_chunk(&entries(&cmds, next_index, 1)).await.map_err(|e| format!("{e:?}"))?;
                                next_index += cmds.len() as u64;
                                for c in &cmds {
                                    r0.apply(c, 0);
                                }
                            }
                            let n0 = o.sm.last_applied().index;
                            let mut r1 = r0.clone();
                            for c in chunk {
                                r1.apply(c, 0);
                            }
                            let es = entries(chunk, next_index, 1);
                            next_index += chunk.len() as u64;
                            let n1 = es.last().map(|e| e.index).unwrap_or(n0);
                            schedules += 1;
                            let result = if *apply_is_outer {
                                RACE.with(|rc| {
                                    *rc.borrow_mut() = Some(Race { sm: o.sm.clone(), at: label, what: RaceOp::Scan(prefix.clone()), fired: false, blocked: false, pending: None, scan_result: None })
                                });
                                o.sm.apply_chunk(&es).await.map_err(|e| format!("{e:?}"))?;
                                let race = finish_race();
                                match race {
                                    Some(x) if x.fired => {
                                        if x.blocked {
                                            blocked_schedules += 1;
                                        }
                                        x.scan_result
                                    }
                                    _ => return Err(format!("[{en}] yield point {label} was never reached")),
                                }
                            } else {
                                RACE.with(|rc| {
                                    *rc.borrow_mut() = Some(Race { sm: o.sm.clone(), at: label, what: RaceOp::Apply(es.clone()), fired: false, blocked: false, pending: None, scan_result: None })
                                });
                                let got = scan_sorted(&o.sm, prefix)?;
                                let race = finish_race();
                                match race {
                                    Some(x) if x.fired => {
                                        if x.blocked {
                                            blocked_schedules += 1;
                                        }
                                        Some(got)
                                    }
                                    _ => return Err(format!("[{en}] yield point {label} was never reached")),
                                }
                            };
                            let Some((got, rev)) = result else {
                                return Err(format!("[{en}] the scan inside the race failed"));
                            };
                            // the scan's claim: 'entries' is the state after applying everything
                            // up to 'rev'. Only n0 and n1 are revisions at which a state exists.
                            let want = if rev == n0 {
                                Some(state_of(&r0, prefix))
                            } else if rev == n1 {
                                Some(state_of(&r1, prefix))
                            } else {
                                None
                            };
                            let outcome = format!("{en}:{label}:{}", if rev == n0 { "old-revision" } else if rev == n1 { "new-revision" } else { "other" });
                            *distinct_outcomes.entry(outcome).or_insert(0) += 1;
                            let ok = want.as_ref().map(|w| *w == got).unwrap_or(false);
                            if samples.len() < 3 {
                                samples.push(json!({"engine": en, "base": base, "chunk": chunk.iter().map(describe).collect::<Vec<_>>(), "prefix": prefix, "other_activity_runs_at": label, "scan": got, "revision": rev}));
                            }
                            if !ok {
                                let how = if want.is_none() {
                                    "the reported revision is no applied index at which a state exists"
                                } else if rev == n0 {
                                    "the entries already contain the chunk but the revision is the one BEFORE it (a watcher resuming after that revision sees the change twice; a reader pairs new data with an old revision)"
                                } else {
                                    "the entries are from BEFORE the chunk but the revision is the one after it (scan-then-watch from that revision misses the change)"
                                };
                                findings.report(
                                    &format!("[{en}] a scan concurrent with an apply returns entries that do not match its revision: {how}"),
                                    json!({"engine": en, "base": base, "chunk": chunk.iter().map(describe).collect::<Vec<_>>(), "prefix": prefix,
                                           "other_activity_runs_at": label, "scan": got, "revision": rev, "revision_before": n0, "revision_after": n1}),
                                );
                            }
                        }
                    }
                }
            }
            let _ = o.sm.stop();
            drop(o);
        }
        Ok(())
    });
    d_engine_server::verif_exports::set_crash_hook(None);
    if let Err(e) = res {
        let _ = writeln!(out, "MACHINERY-ERROR property=C25 {e}");
        runner::cleanup_scratch();
        return 2;
    }
    let exit = findings.finish(out);
    let mut cov = serde_json::Map::new();
    cov.insert("states".into(), json!((seq_cases + schedules).max(1)));
    cov.insert("transitions".into(), json!((seq_cases + 2 * schedules).max(1)));
    cov.insert("traces_validated_against_impl".into(), json!(schedules));
    cov.insert("samples".into(), json!(samples));
    cov.insert("exhaustive".into(), json!(true));
    cov.insert("sequential_scan_cases".into(), json!(seq_cases));
    cov.insert("interleaved_schedules".into(), json!(schedules));
    cov.insert("schedules_in_which_the_other_activity_had_to_wait_for_a_lock".into(), json!(blocked_schedules));
    cov.insert("distinct_outcomes".into(), json!(distinct_outcomes));
    cov.insert("distinct_disagreement_classes".into(), json!(findings.classes()));
    cov.insert("known_findings_hit".into(), json!(findings.known_hit()));
    cov.insert("explanation".into(), json!("Part 1: every subset of 0xFF-boundary keys {a, a\\\\0, a\\\\xFF, a\\\\xFF\\\\0, a\\\\xFF\\\\xFF, b, \\\\xFF, \\\\xFF\\\\xFF} (64 subsets quick / 256 thorough) x 8 prefixes incl. the empty one, both engines: scan result == reference filter, revision == applied index. Part 2: 3 base states x 7 chunks (put / new key / delete / CAS / other prefix / two-command chunks) x 3 prefixes x every yield point between the steps in which apply publishes data and applied index and in which scan reads entries and revision (File: after WAL append, after the in-memory update, after the applied-index update; RocksDB: after the batch write, and inside scan after the iteration): the other activity runs to completion exactly there, so every interleaving of one scan and one apply at these points is executed. Oracle: the entries equal the reference state at the revision the scan reports."));
    Evidence {
        property: "C25".into(),
        tier: tier.into(),
        level: "model_checking".into(),
        coverage: cov,
        assumptions: vec![
            "interleavings are explored at the declared yield points (the boundaries between the data update and the applied-index update, and between iteration and revision read); machine-level interleavings inside RocksDB are trusted".into(),
            "one scanner, one applier".into(),
        ],
        wall_s: t0.elapsed().as_secs_f64(),
        violations: findings.new_violations() as i64,
    }
    .write();
    runner::cleanup_scratch();
    exit
}
