//! C13 (read policy routing is enforced) and C35 (multi-key reads are aligned with the requested
//! keys) on simulated nodes running the real Raft roles, with the REAL read paths:
//!   * the Raft command path (`ClientCmd::Read` into the loop),
//!   * `EmbeddedReadHandle::get_batch` (what EmbeddedClient calls),
//!   * `StandaloneReadHandle::get_batch` + ReadActor (what the gRPC service calls for a request
//!     that names the eventual or lease policy; other gRPC requests take the command path).

use std::time::Duration;
use std::time::Instant;

use bytes::Bytes;
use d_engine_core::ReadConsistencyPolicy;
use d_engine_server::verif_exports::VerifEmbeddedRead;
use d_engine_server::verif_exports::VerifStandaloneRead;
use serde_json::json;

use crate::evidence::Evidence;
use crate::gridkit::Findings;
use crate::prefix::Script;
use crate::runner;
use crate::simkit::cluster::ClientOutcome;
use crate::simkit::cluster::Cluster;
use crate::simkit::cluster::Event;
use crate::simkit::cluster::Op;
use crate::simkit::cluster::Opts;
use crate::simkit::cluster::RPolicy;
use crate::simkit::cluster::RoleKind;
use crate::simkit::node::SimT;

#[derive(Clone, Copy, Debug, PartialEq, Eq)]
enum Path {
    RaftCommand,
    EmbeddedHandle,
    StandaloneHandle,
}

#[derive(Clone, Copy, Debug, PartialEq, Eq)]
enum NodeState {
    /// leader whose lease has expired and who cannot reach anybody
    LeaderLeaseExpiredNoQuorum,
    /// leader with a valid lease whose state machine has not applied the committed write yet
    LeaderLeaseValidSmLagging,
    Follower,
    Candidate,
    Learner,
}

/// How a read behaved.
#[derive(Clone, Debug, PartialEq, Eq)]
enum Behaviour {
    /// answered at once from the node's local state with this value
    Local(Option<String>),
    /// not answered (still waiting for quorum / apply)
    Waiting,
    /// refused; `not_leader` = the error identifies "not leader"
    Refused { not_leader: bool, text: String },
}

fn to_core(p: RPolicy) -> Option<ReadConsistencyPolicy> {
    match p {
        RPolicy::Default => None,
        RPolicy::Linearizable => Some(ReadConsistencyPolicy::LinearizableRead),
        RPolicy::Lease => Some(ReadConsistencyPolicy::LeaseRead),
        RPolicy::Eventual => Some(ReadConsistencyPolicy::EventualConsistency),
    }
}

/// What the statement demands for the EFFECTIVE policy in each state.
fn expected(state: NodeState, effective: RPolicy, local: &Option<String>) -> Vec<Behaviour> {
    let not_leader = || vec![Behaviour::Refused { not_leader: true, text: String::new() }];
    match state {
        NodeState::Follower | NodeState::Candidate | NodeState::Learner => match effective {
            RPolicy::Eventual => vec![Behaviour::Local(local.clone())],
            _ => not_leader(),
        },
        NodeState::LeaderLeaseExpiredNoQuorum => match effective {
            RPolicy::Eventual => vec![Behaviour::Local(local.clone())],
            // needs a quorum round first: must not be answered from local state
            _ => vec![Behaviour::Waiting],
        },
        NodeState::LeaderLeaseValidSmLagging => match effective {
            RPolicy::Eventual | RPolicy::Lease => vec![Behaviour::Local(local.clone())],
            // must wait for the state machine to catch up with the commit index
            _ => vec![Behaviour::Waiting],
        },
    }
}

fn same(b: &Behaviour, want: &Behaviour) -> bool {
    match (b, want) {
        (Behaviour::Refused { not_leader: a, .. }, Behaviour::Refused { not_leader: w, .. }) => !*w || *a,
        (x, y) => x == y,
    }
}

struct Setup {
    script: Script,
    node: u32,
    local: Option<String>,
}

fn build(opts: &Opts, state: NodeState) -> Result<Setup, String> {
    let mut o = opts.clone();
    o.learners = vec![4];
    if state == NodeState::LeaderLeaseValidSmLagging {
        o.gated_sm = vec![1];
    }
    let mut s = Script::new(&o);
    s.elect(1).drain_all();
    s.ev(Event::ClientWrite(1, Op::Put("a".into(), "v1".into()))).drain_all();
    // a second heartbeat round so that followers learn the commit index and apply
    s.ev(Event::Heartbeat(1)).drain_all();
    let (node, local) = match state {
        NodeState::LeaderLeaseExpiredNoQuorum => {
            // the lease (30 min in untimed runs) runs out; nothing is delivered afterwards
            s.ev(Event::Advance(o.lease_ms + 1));
            (1, Some("v1".to_string()))
        }
        NodeState::LeaderLeaseValidSmLagging => (1, None),
        NodeState::Follower => (2, Some("v1".to_string())),
        NodeState::Candidate => {
            s.ev(Event::Timeout(3));
            (3, Some("v1".to_string()))
        }
        NodeState::Learner => (4, Some("v1".to_string())),
    };
    let want_role = match state {
        NodeState::LeaderLeaseExpiredNoQuorum | NodeState::LeaderLeaseValidSmLagging => RoleKind::Leader,
        NodeState::Follower => RoleKind::Follower,
        NodeState::Candidate => RoleKind::Candidate,
        NodeState::Learner => RoleKind::Learner,
    };
    let v = s.view(node).ok_or("node view missing")?;
    if v.role != want_role {
        return Err(format!("setup for {state:?}: node {node} is {:?}", v.role));
    }
    let got_local = v.kv.iter().find(|(k, _)| k == b"a").map(|(_, val)| String::from_utf8_lossy(val).to_string());
    if got_local != local {
        return Err(format!("setup for {state:?}: node {node} holds {:?}, expected {:?}", got_local, local));
    }
    if matches!(state, NodeState::LeaderLeaseValidSmLagging) && (!v.lease_valid || v.commit < 2) {
        return Err(format!("setup for {state:?}: lease_valid={} commit={}", v.lease_valid, v.commit));
    }
    if matches!(state, NodeState::LeaderLeaseExpiredNoQuorum) && v.lease_valid {
        return Err("setup: lease still valid after the advance".into());
    }
    Ok(Setup { script: s, node, local })
}

async fn read_via(c: &mut Cluster, node: u32, path: Path, keys: &[&str], client: RPolicy) -> Result<(Behaviour, Option<Vec<Option<String>>>), String> {
    let keyb: Vec<Bytes> = keys.iter().map(|k| Bytes::from(k.to_string())).collect();
    let classify_err = |text: String| {
        let nl = text.contains("Not leader") || text.contains("NotLeader") || text.contains("not leader");
        Behaviour::Refused { not_leader: nl, text }
    };
    // the gRPC service sends requests WITHOUT an eventual/lease policy down the command path
    let path = if path == Path::StandaloneHandle && !matches!(client, RPolicy::Eventual | RPolicy::Lease) { Path::RaftCommand } else { path };
    match path {
        Path::RaftCommand => {
            let before = c.clients.len();
            c.queue_read_keys(node, keys, client)?;
            c.settle_node(node).await?;
            crate::simkit::cluster_ext::check_global(c).await;
            let cl = &c.clients[before];
            Ok(match &cl.outcome {
                ClientOutcome::ReadOk(v) => (Behaviour::Local(v.clone()), Some(cl.read_entries.iter().map(|(_, val)| Some(String::from_utf8_lossy(val).to_string())).collect())),
                ClientOutcome::Pending => (Behaviour::Waiting, None),
                ClientOutcome::Err(e) => (classify_err(e.clone()), None),
                ClientOutcome::Closed => (classify_err("channel closed".into()), None),
                ClientOutcome::WriteOk(_) => (classify_err("write response to a read".into()), None),
            })
        }
        Path::EmbeddedHandle | Path::StandaloneHandle => {
            let Some(policy) = to_core(client) else {
                // the embedded client API always names a policy; 'none' goes down the command path
                return Box::pin(read_via(c, node, Path::RaftCommand, keys, client)).await;
            };
            let n = c.node(node).ok_or("node not up")?;
            let (sm, lease, cmd_tx) = (n.sm.clone(), n.raft.read_lease(), n.cmd_tx.clone());
            let timeout = Duration::from_secs(86_400);
            let (tx, mut rx) = tokio::sync::oneshot::channel();
            let task = if path == Path::EmbeddedHandle {
                let h = VerifEmbeddedRead::<SimT>::new(sm, lease, cmd_tx, c.opts.allow_override);
                tokio::spawn(async move {
                    let r = h.get_batch(&keyb, policy, 1, timeout).await;
                    let _ = tx.send(r);
                })
            } else {
                let h = VerifStandaloneRead::new(sm, lease, cmd_tx, c.opts.allow_override);
                tokio::spawn(async move {
                    let r = h.get_batch(&keyb, policy, 1, timeout).await;
                    h.actor.abort();
                    let _ = tx.send(r);
                })
            };
            // let the handle run; if it fell back to the command channel the node takes its turn
            for _ in 0..3 {
                crate::logkit::quiesce().await;
                c.settle_node(node).await?;
            }
            crate::logkit::quiesce().await;
            let out = match rx.try_recv() {
                Ok(Ok(values)) => {
                    let vals: Vec<Option<String>> = values.iter().map(|v| v.as_ref().map(|b| String::from_utf8_lossy(b).to_string())).collect();
                    (Behaviour::Local(vals.first().cloned().flatten()), Some(vals))
                }
                Ok(Err(e)) => (classify_err(format!("{e:?}")), None),
                Err(_) => (Behaviour::Waiting, None),
            };
            task.abort();
            Ok(out)
        }
    }
}

pub fn run_c13(tier: &str, out: &mut std::fs::File) -> i32 {
    use std::io::Write;
    let t0 = Instant::now();
    let mut findings = Findings::new("C13");
    let mut cases = 0u64;
    let mut outcomes: std::collections::BTreeMap<String, u64> = Default::default();
    let mut samples = vec![];
    let states = [
        NodeState::LeaderLeaseExpiredNoQuorum,
        NodeState::LeaderLeaseValidSmLagging,
        NodeState::Follower,
        NodeState::Candidate,
        NodeState::Learner,
    ];
    for default in [RPolicy::Linearizable, RPolicy::Lease, RPolicy::Eventual] {
        for allow in [true, false] {
            let mut opts = Opts::default();
            opts.default_policy = default;
            opts.allow_override = allow;
            for state in states {
                for path in [Path::RaftCommand, Path::EmbeddedHandle, Path::StandaloneHandle] {
                    for client in [RPolicy::Default, RPolicy::Linearizable, RPolicy::Lease, RPolicy::Eventual] {
                        // one fresh cluster per case: earlier reads must not leave queued requests behind
                        let setup = build(&opts, state);
                        let mut setup = match setup {
                            Ok(s) => s,
                            Err(e) => {
                                let _ = writeln!(out, "MACHINERY-ERROR property=C13 {e}");
                                runner::cleanup_scratch();
                                return 2;
                            }
                        };
                        let effective = if allow && client != RPolicy::Default { client } else { default };
                        let node = setup.node;
                        let r = setup.script.with_cluster(|c| Box::pin(read_via(c, node, path, &["a"], client)));
                        let (got, _) = match r {
                            Ok(x) => x,
                            Err(e) => {
                                let _ = writeln!(out, "MACHINERY-ERROR property=C13 {state:?} {path:?} {client:?}: {e}");
                                runner::cleanup_scratch();
                                return 2;
                            }
                        };
                        let local = setup.local.clone();
                        let _ = setup.script.finish();
                        cases += 1;
                        let want = expected(state, effective, &local);
                        let ok = want.iter().any(|w| same(&got, w));
                        let kind = match &got {
                            Behaviour::Local(_) => "local",
                            Behaviour::Waiting => "waiting",
                            Behaviour::Refused { not_leader: true, .. } => "refused-not-leader",
                            Behaviour::Refused { .. } => "refused-other",
                        };
                        *outcomes.entry(format!("{state:?}/{path:?}/{kind}")).or_insert(0) += 1;
                        if samples.len() < 3 {
                            samples.push(json!({"default": format!("{default:?}"), "allow_client_override": allow, "state": format!("{state:?}"),
                                "path": format!("{path:?}"), "client_policy": format!("{client:?}"), "behaviour": format!("{got:?}")}));
                        }
                        if !ok {
                            let leader_state = matches!(state, NodeState::LeaderLeaseExpiredNoQuorum | NodeState::LeaderLeaseValidSmLagging);
                            let class = match (&got, leader_state) {
                                (Behaviour::Local(_), false) if !allow && client != RPolicy::Default && client != default => format!(
                                    "[{path:?}] overrides are DISABLED but a non-leader served the read under the client's policy instead of the server default"
                                ),
                                (Behaviour::Local(_), false) => format!("[{path:?}] a non-leader answered a linearizable/lease read from its local state"),
                                (Behaviour::Local(_), true) if !allow && client != RPolicy::Default && client != default => format!(
                                    "[{path:?}] overrides are DISABLED but the leader served the read under the client's policy instead of the server default"
                                ),
                                (Behaviour::Local(_), true) => format!("[{path:?}] the leader answered from local state although the effective policy requires a quorum round / a caught-up state machine"),
                                (Behaviour::Refused { not_leader: false, .. }, false) => format!("[{path:?}] a non-leader refused the read without telling the client it is not the leader"),
                                (Behaviour::Refused { .. }, _) if !allow && client != RPolicy::Default && client != default => {
                                    format!("[{path:?}] overrides are DISABLED but the read was handled under the client's policy (refused) instead of the server default")
                                }
                                _ => format!("[{path:?}] the read was not served under the effective policy"),
                            };
                            findings.report(
                                &class,
                                json!({"default_policy": format!("{default:?}"), "allow_client_override": allow, "node_state": format!("{state:?}"),
                                       "path": format!("{path:?}"), "client_policy": format!("{client:?}"), "effective_policy": format!("{effective:?}"),
                                       "observed": format!("{got:?}"), "expected_one_of": format!("{want:?}")}),
                            );
                        }
                    }
                }
            }
        }
    }
    let exit = findings.finish(out);
    let mut cov = serde_json::Map::new();
    cov.insert("states".into(), json!(cases.max(1)));
    cov.insert("transitions".into(), json!(cases.max(1)));
    cov.insert("traces_validated_against_impl".into(), json!(cases));
    cov.insert("samples".into(), json!(samples));
    cov.insert("exhaustive".into(), json!(true));
    cov.insert("behaviour_counts".into(), json!(outcomes));
    cov.insert("distinct_disagreement_classes".into(), json!(findings.classes()));
    cov.insert("known_findings_hit".into(), json!(findings.known_hit()));
    cov.insert("explanation".into(), json!("Full matrix: server default policy {linearizable, lease, eventual} x allow_client_override {true,false} x node state {leader with expired lease and no reachable quorum; leader with valid lease but lagging state machine; follower; candidate; learner} x client policy {none, linearizable, lease, eventual} x path {Raft command path; EmbeddedReadHandle::get_batch; StandaloneReadHandle::get_batch + ReadActor (the gRPC service's fast path; gRPC requests without an eventual/lease policy take the command path)} = 360 cases, each on a fresh simulated cluster of real Raft nodes. The policy actually used is identified from behaviour: in the two leader states eventual answers locally, lease answers locally only under a valid lease (regardless of state-machine lag) and linearizable waits for quorum/apply; on non-leaders only eventual may answer locally and everything else must be refused with a not-leader error. It must equal (override allowed ? client-or-default : default)."));
    let _ = tier;
    Evidence {
        property: "C13".into(),
        tier: tier.into(),
        level: "model_checking".into(),
        coverage: cov,
        assumptions: vec![
            "the gRPC service's own routing lines (handle_client_read) are represented by calling StandaloneReadHandle::get_batch for requests that name the eventual/lease policy and the Raft command path otherwise, exactly as that method does; tonic transport is not exercised".into(),
            "simulated transport/state machine, real Raft roles, real read handles and ReadActor".into(),
        ],
        wall_s: t0.elapsed().as_secs_f64(),
        violations: findings.new_violations() as i64,
    }
    .write();
    runner::cleanup_scratch();
    exit
}

// ------------------------------------------------------------------------------------------
// C35: multi-key reads are aligned with the requested keys
// ------------------------------------------------------------------------------------------

pub fn run_c35(tier: &str, out: &mut std::fs::File) -> i32 {
    use std::io::Write;
    let t0 = Instant::now();
    let mut findings = Findings::new("C35");
    let vals: [Option<&str>; 3] = [None, Some(""), Some("x")];
    let keys_all = ["a", "b", "c"];
    let mut lists: Vec<Vec<&str>> = vec![];
    for a in keys_all {
        lists.push(vec![a]);
        for b2 in keys_all {
            lists.push(vec![a, b2]);
            for c3 in keys_all {
                lists.push(vec![a, b2, c3]);
            }
        }
    }
    let mut cases = 0u64;
    let mut samples = vec![];
    for va in vals {
        for vb in vals {
            let mut opts = Opts::default();
            opts.default_policy = RPolicy::Linearizable;
            opts.allow_override = true;
            let mut s = Script::new(&opts);
            s.elect(1).drain_all();
            for (k, v) in [("a", va), ("b", vb)] {
                if let Some(v) = v {
                    s.ev(Event::ClientWrite(1, Op::Put(k.into(), v.into()))).drain_all();
                }
            }
            s.ev(Event::Heartbeat(1)).drain_all();
            let reference = |k: &str| -> Option<String> {
                match k {
                    "a" => va.map(|x| x.to_string()),
                    "b" => vb.map(|x| x.to_string()),
                    _ => None,
                }
            };
            for list in &lists {
                let want: Vec<Option<String>> = list.iter().map(|k| reference(k)).collect();
                for (path, policy) in [
                    (Path::EmbeddedHandle, RPolicy::Eventual),
                    (Path::EmbeddedHandle, RPolicy::Lease),
                    (Path::EmbeddedHandle, RPolicy::Linearizable),
                    (Path::StandaloneHandle, RPolicy::Eventual),
                    (Path::StandaloneHandle, RPolicy::Lease),
                    (Path::RaftCommand, RPolicy::Linearizable),
                    (Path::RaftCommand, RPolicy::Eventual),
                ] {
                    cases += 1;
                    let l2 = list.clone();
                    let r = s.with_cluster(|c| Box::pin(async move { read_via(c, 1, path, &l2, policy).await }));
                    let (beh, got) = match r {
                        Ok(x) => x,
                        Err(e) => {
                            let _ = writeln!(out, "MACHINERY-ERROR property=C35 {e}");
                            runner::cleanup_scratch();
                            return 2;
                        }
                    };
                    // the command path returns the sparse (key, value) entries of the response;
                    // both clients re-align them by key, as done here
                    let got: Option<Vec<Option<String>>> = if path == Path::RaftCommand {
                        s.with_cluster(|c| {
                            let l3 = list.clone();
                            Box::pin(async move {
                                let cl = c.clients.last().unwrap();
                                if matches!(cl.outcome, ClientOutcome::ReadOk(_)) {
                                    let m: std::collections::HashMap<Vec<u8>, Vec<u8>> = cl.read_entries.iter().cloned().collect();
                                    Some(l3.iter().map(|k| m.get(k.as_bytes()).map(|v| String::from_utf8_lossy(v).to_string())).collect())
                                } else {
                                    None
                                }
                            })
                        })
                    } else {
                        got
                    };
                    if samples.len() < 3 {
                        samples.push(json!({"state": {"a": va, "b": vb}, "keys": list, "path": format!("{path:?}"), "policy": format!("{policy:?}"), "result": got}));
                    }
                    match got {
                        Some(g) if g == want => {}
                        Some(g) => {
                            let how = if g.len() != want.len() {
                                "the number of results differs from the number of requested keys"
                            } else if g.iter().zip(want.iter()).any(|(x, y)| x.is_none() != y.is_none() && (x.as_deref() == Some("") || y.as_deref() == Some(""))) {
                                "an EMPTY value and an absent key are confused"
                            } else {
                                "a result does not belong to the key at its position"
                            };
                            findings.report(
                                &format!("[{path:?}/{policy:?}] multi-key read: {how}"),
                                json!({"state": {"a": va, "b": vb}, "keys": list, "got": g, "reference": want}),
                            );
                        }
                        None => findings.report(
                            &format!("[{path:?}/{policy:?}] multi-key read at an established leader is not answered"),
                            json!({"state": {"a": va, "b": vb}, "keys": list, "behaviour": format!("{beh:?}")}),
                        ),
                    }
                }
                // the gRPC fast-path response built by the server from the state machine's answer
                {
                    cases += 1;
                    let keyb: Vec<Bytes> = list.iter().map(|k| Bytes::from(k.to_string())).collect();
                    let values: Vec<Option<Bytes>> = want.iter().map(|v| v.as_ref().map(|x| Bytes::from(x.clone()))).collect();
                    let resp = d_engine_server::verif_exports::fast_path_batch_read_response(&keyb, values);
                    use d_engine_proto::client::client_response::SuccessResult;
                    let entries: Vec<(Bytes, Bytes)> = match resp.success_result {
                        Some(SuccessResult::ReadData(d)) => d.results.into_iter().map(|r| (r.key, r.value)).collect(),
                        _ => vec![],
                    };
                    let m: std::collections::HashMap<Bytes, Bytes> = entries.into_iter().collect();
                    let g: Vec<Option<String>> = keyb.iter().map(|k| m.get(k).map(|v| String::from_utf8_lossy(v).to_string())).collect();
                    if g != want {
                        findings.report(
                            "[gRPC fast-path response] multi-key read: the response re-aligned by key differs from the requested keys' values",
                            json!({"keys": list, "got": g, "reference": want}),
                        );
                    }
                }
            }
            let _ = s.finish();
        }
    }
    let exit = findings.finish(out);
    let mut cov = serde_json::Map::new();
    cov.insert("states".into(), json!(9));
    cov.insert("transitions".into(), json!(cases.max(1)));
    cov.insert("traces_validated_against_impl".into(), json!(cases));
    cov.insert("samples".into(), json!(samples));
    cov.insert("exhaustive".into(), json!(true));
    cov.insert("key_lists".into(), json!(lists.len()));
    cov.insert("distinct_disagreement_classes".into(), json!(findings.classes()));
    cov.insert("known_findings_hit".into(), json!(findings.known_hit()));
    cov.insert("explanation".into(), json!("9 states (keys a,b each absent / empty value / x) x all 39 key lists of length 1..3 over {a,b,c} (duplicates and a missing key included) x read paths at an established leader: EmbeddedReadHandle::get_batch under eventual / lease (local fast path) and linearizable (command path + re-alignment), StandaloneReadHandle::get_batch + ReadActor under eventual / lease, the Raft command path under linearizable / eventual (sparse response re-aligned by key as both clients do), and the gRPC fast-path response builder. Oracle: one result per requested key, in request order, equal to that key's value, an empty value distinct from 'absent'. (StateMachine::get_multi itself on both engines is covered by C22's sweep.)"));
    Evidence {
        property: "C35".into(),
        tier: tier.into(),
        level: "model_checking".into(),
        coverage: cov,
        assumptions: vec![
            "the gRPC client's own alignment lines (GrpcClient::get_multi_with_policy: collect the sparse response into a map, look every requested key up) are mirrored by the harness on the server's real response; the tonic transport is not exercised".into(),
        ],
        wall_s: t0.elapsed().as_secs_f64(),
        violations: findings.new_violations() as i64,
    }
    .write();
    runner::cleanup_scratch();
    exit
}
