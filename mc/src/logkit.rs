//! Helpers shared by the log-level engines: a real `BufferedRaftLog` over the simulated store
//! with its IO task running on the caller's (paused, current-thread) runtime, and the plain
//! reference log.

use std::sync::Arc;

use d_engine_core::BufferedRaftLog;
use d_engine_core::FlushPolicy;
use d_engine_core::PersistenceConfig;
use d_engine_core::PersistenceStrategy;
use d_engine_proto::common::Entry;
use d_engine_proto::common::EntryPayload;
use tokio::task::JoinHandle;

use crate::simkit::node::SimT;
use crate::simkit::store::DiskImage;
use crate::simkit::store::SimDisk;
use crate::simkit::store::SimStorageEngine;

pub struct LiveLog {
    pub log: Arc<BufferedRaftLog<SimT>>,
    pub disk: SimDisk,
    pub io: JoinHandle<()>,
    pub flush_rx: tokio::sync::mpsc::UnboundedReceiver<d_engine_core::InternalEvent>,
}

impl Drop for LiveLog {
    fn drop(&mut self) {
        self.io.abort();
    }
}

pub fn persistence() -> PersistenceConfig {
    PersistenceConfig {
        strategy: PersistenceStrategy::MemFirst,
        flush_policy: FlushPolicy::Batch { idle_flush_interval_ms: 360_000_000 },
        max_buffered_entries: 10_000,
    }
}

pub fn open_log(image: DiskImage) -> LiveLog {
    let disk = SimDisk::new(image);
    let engine = Arc::new(SimStorageEngine::new(disk.clone()));
    let (log, rx) = BufferedRaftLog::<SimT>::new(1, persistence(), engine);
    let (ftx, frx) = tokio::sync::mpsc::unbounded_channel();
    let (log, fut) = log.verif_start_local(rx, Some(ftx));
    let io = tokio::spawn(fut);
    LiveLog { log, disk, io, flush_rx: frx }
}

pub async fn quiesce() {
    tokio::time::sleep(std::time::Duration::from_millis(1)).await;
}

pub fn noop_entry(index: u64, term: u64) -> Entry {
    Entry { index, term, payload: Some(EntryPayload::noop()) }
}

/// entry whose payload identifies (index, term, tag) so that content comparison is meaningful
pub fn cmd_entry(index: u64, term: u64, tag: u8) -> Entry {
    Entry {
        index,
        term,
        payload: Some(EntryPayload::command(bytes::Bytes::from(vec![tag, index as u8, term as u8]))),
    }
}

/// The plain reference log: entries above a purge boundary.
#[derive(Clone, Debug, Default, PartialEq, Eq, Hash)]
pub struct RefLog {
    pub entries: Vec<(u64, u64, u8)>, // (index, term, tag)
    pub boundary: Option<(u64, u64)>,
}

impl RefLog {
    pub fn last_index(&self) -> u64 {
        self.entries.last().map(|e| e.0).unwrap_or(0)
    }
    pub fn first_index(&self) -> u64 {
        self.entries.first().map(|e| e.0).unwrap_or(0)
    }
    pub fn last_log_id(&self) -> Option<(u64, u64)> {
        match self.entries.last() {
            Some(e) => Some((e.0, e.1)),
            None => self.boundary,
        }
    }
    /// index the next leader append gets
    pub fn next_index(&self) -> u64 {
        self.last_log_id().map(|l| l.0).unwrap_or(0) + 1
    }
    pub fn term_at(&self, i: u64) -> Option<u64> {
        if let Some(e) = self.entries.iter().find(|e| e.0 == i) {
            return Some(e.1);
        }
        match self.boundary {
            Some((bi, bt)) if bi == i && i > 0 => Some(bt),
            _ => None,
        }
    }
    pub fn last_term(&self) -> u64 {
        self.last_log_id().map(|l| l.1).unwrap_or(0)
    }
    pub fn get(&self, i: u64) -> Option<(u64, u64, u8)> {
        self.entries.iter().find(|e| e.0 == i).copied()
    }
    pub fn first_index_for_term(&self, t: u64) -> Option<u64> {
        self.entries.iter().find(|e| e.1 == t).map(|e| e.0)
    }
    pub fn last_index_for_term(&self, t: u64) -> Option<u64> {
        self.entries.iter().rev().find(|e| e.1 == t).map(|e| e.0)
    }
    pub fn leader_append(&mut self, k: usize, term: u64, tag: u8) -> Vec<(u64, u64, u8)> {
        let mut out = vec![];
        for _ in 0..k {
            let e = (self.next_index(), term, tag);
            self.entries.push(e);
            out.push(e);
        }
        out
    }
    /// Raft's AppendEntries receiver rule. Returns false when prev does not match.
    pub fn follower_append(&mut self, prev: u64, prev_term: u64, new: &[(u64, u64, u8)]) -> bool {
        if !(prev == 0 && prev_term == 0) && self.term_at(prev) != Some(prev_term) {
            return false;
        }
        for e in new {
            match self.get(e.0) {
                Some(old) if old.1 == e.1 => {}
                Some(_) => {
                    self.entries.retain(|x| x.0 < e.0);
                    self.entries.push(*e);
                }
                None => {
                    // below or at the purge boundary: already compacted, ignore
                    if self.boundary.map(|b| e.0 <= b.0).unwrap_or(false) {
                        continue;
                    }
                    self.entries.push(*e);
                }
            }
        }
        true
    }
    pub fn purge(&mut self, upto: u64) {
        let term = self.term_at(upto).unwrap_or(0);
        self.entries.retain(|e| e.0 > upto);
        self.boundary = Some((upto, term));
    }
    pub fn reset(&mut self) {
        self.entries.clear();
        self.boundary = None;
    }
}

pub fn to_entries(v: &[(u64, u64, u8)]) -> Vec<Entry> {
    v.iter().map(|(i, t, g)| cmd_entry(*i, *t, *g)).collect()
}

pub fn tag_of(e: &Entry) -> u8 {
    use d_engine_proto::common::entry_payload::Payload;
    match e.payload.as_ref().and_then(|p| p.payload.as_ref()) {
        Some(Payload::Command(b)) => b.first().copied().unwrap_or(0),
        _ => 255,
    }
}
