//! Violation bookkeeping for enumeration-style checks (grids, operation sequences, crash
//! points): violations are grouped into classes by their description; each class is either
//! covered by an entry of known_findings.json (KNOWN-FINDING, exit 0) or reported (VIOLATION,
//! exit 1). The first (shortest, since enumeration is simplest-first) example of each class is
//! written as a replay file.

use std::collections::BTreeMap;
use std::io::Write;

use serde_json::Value;
use serde_json::json;

use crate::known::Guard;

pub struct Findings {
    pub property: String,
    classes: BTreeMap<String, (u64, Value)>,
    guards: Vec<Guard>,
    known_hit: Vec<String>,
    new_count: usize,
}

impl Findings {
    pub fn new(property: &str) -> Self {
        Findings {
            property: property.to_string(),
            classes: BTreeMap::new(),
            guards: crate::known::guards_for(property),
            known_hit: vec![],
            new_count: 0,
        }
    }

    pub fn report(&mut self, class: &str, example: Value) {
        let e = self.classes.entry(class.to_string()).or_insert((0, example));
        e.0 += 1;
    }

    pub fn classes(&self) -> Vec<Value> {
        self.classes.iter().map(|(k, (n, _))| json!({"class": k, "count": n})).collect()
    }

    pub fn known_hit(&self) -> Vec<String> {
        self.known_hit.clone()
    }

    pub fn new_violations(&self) -> usize {
        self.new_count
    }

    /// Print verdict lines, write replay files; returns the exit code (0 or 1).
    pub fn finish(&mut self, out: &mut std::fs::File) -> i32 {
        let mut exit = 0;
        let mut n = 0;
        for (class, (count, example)) in &self.classes {
            if let Some(g) = self.guards.iter().find(|g| g.text_matches(&self.property, class)) {
                if !self.known_hit.contains(&g.finding.id) {
                    self.known_hit.push(g.finding.id.clone());
                    let _ = writeln!(
                        out,
                        "KNOWN-FINDING: property={} {} ({}; {} cases in this run)",
                        self.property, g.finding.description, g.finding.id, count
                    );
                }
                continue;
            }
            n += 1;
            let path = crate::evidence::write_replay(
                &self.property,
                &format!("case-{n}"),
                &json!({"property": self.property, "violation": class, "count": count, "example": example}),
            );
            let _ = writeln!(out, "VIOLATION property={} replay={}", self.property, path);
            let _ = writeln!(out, "  {class} ({count} cases)");
            exit = 1;
        }
        self.new_count = n;
        exit
    }
}
