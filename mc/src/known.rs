//! Known findings: genuine defects recorded in /verif/known_findings.json. Each entry names the
//! property, a description, a replay file and a *guard* that characterises the root cause.
//! While an entry's replay still fails, its guard is armed: violations matching the guard are
//! reported as KNOWN-FINDING (exit 0) and states in which the guard fires are not expanded, so
//! any other violation still exits 1. The file is never written at run time.

use serde::Deserialize;
use serde::Serialize;

use crate::simkit::cluster::Cluster;
use crate::simkit::cluster::Violation;

#[derive(Clone, Debug, Serialize, Deserialize)]
pub struct Finding {
    pub id: String,
    pub property: String,
    pub description: String,
    /// substring every matching violation text contains
    #[serde(default)]
    pub what_contains: Vec<String>,
    /// optional replay file (relative to /verif) that must still fail for the guard to be armed
    #[serde(default)]
    pub replay: Option<String>,
    /// engine / check name this finding belongs to (guards are only armed there)
    #[serde(default)]
    pub scope: Option<String>,
    /// input-class guards for grid checks (free form, interpreted by the engine)
    #[serde(default)]
    pub input_guard: Option<serde_json::Value>,
}

#[derive(Clone, Debug, Default, Serialize, Deserialize)]
pub struct KnownFile {
    #[serde(default)]
    pub findings: Vec<Finding>,
    #[serde(default)]
    pub fixed: Vec<String>,
}

pub fn load() -> KnownFile {
    let p = verif_root().join("known_findings.json");
    match std::fs::read_to_string(&p) {
        Ok(s) => serde_json::from_str(&s).unwrap_or_else(|e| {
            eprintln!("machinery: cannot parse {}: {e}", p.display());
            std::process::exit(2)
        }),
        Err(_) => KnownFile::default(),
    }
}

pub fn verif_root() -> std::path::PathBuf {
    std::env::var("VERIF_ROOT").map(Into::into).unwrap_or_else(|_| "/verif".into())
}

#[derive(Clone, Debug)]
pub struct Guard {
    pub finding: Finding,
}

impl Guard {
    pub fn matches(&self, v: &Violation, _c: &Cluster) -> bool {
        self.text_matches(&v.property, &v.what)
    }
    pub fn text_matches(&self, property: &str, what: &str) -> bool {
        property == self.finding.property
            && !self.finding.what_contains.is_empty()
            && self.finding.what_contains.iter().all(|s| what.contains(s.as_str()))
    }
    pub fn state_matches(&self, _c: &Cluster) -> bool {
        false
    }
}

pub fn guards_for(property: &str) -> Vec<Guard> {
    load()
        .findings
        .into_iter()
        .filter(|f| f.property == property)
        .map(|finding| Guard { finding })
        .collect()
}
