//! E1: explicit-state exploration of a cluster of real Raft nodes.
//! usage: clustermc <Cxx> --tier quick|thorough [--replay <file>]

use std::io::Write;

use vmc::runner;
use vmc::specs;

fn main() {
    let args: Vec<String> = std::env::args().collect();
    let mut out = runner::silence_stdout();
    if args.len() < 2 {
        let _ = writeln!(out, "usage: clustermc <Cxx> --tier quick|thorough [--replay <file>]");
        std::process::exit(2);
    }
    let property = args[1].clone();
    let mut tier = std::env::var("VERIF_TIER").unwrap_or_else(|_| "quick".into());
    let mut replay: Option<String> = None;
    let mut i = 2;
    while i < args.len() {
        match args[i].as_str() {
            "--tier" => {
                tier = args[i + 1].clone();
                i += 2;
            }
            "--replay" => {
                replay = Some(args[i + 1].clone());
                i += 2;
            }
            _ => i += 1,
        }
    }
    if let Some(path) = replay {
        let code = specs::replay_file(&property, &path, &mut out);
        runner::cleanup_scratch();
        std::process::exit(code);
    }
    if property == "C37" {
        std::process::exit(vmc::c37::run(&tier, &mut out));
    }
    if property == "C36" {
        std::process::exit(vmc::c36::run(&tier, &mut out));
    }
    if property == "C33" {
        // engine part first (restart survival of snapshot metadata on the real engines), then
        // the cluster part; one evidence file for both
        std::process::exit(vmc::c33::run_both(&tier, &mut out));
    }
    let Some(check) = specs::cluster_check(&property, &tier) else {
        let _ = writeln!(out, "MACHINERY-ERROR unknown property {property} for clustermc");
        std::process::exit(2);
    };
    let code = runner::run_check(&property, &tier, &check.runs, check.budget_s, &[], &mut out);
    std::process::exit(code);
}
