//! E5: node / handler level enumerations.
//! usage: apimc <C34|...> --tier quick|thorough

use std::io::Write;
use std::time::Instant;

use d_engine_core::RaftConfig;
use serde_json::json;
use vmc::evidence::Evidence;
use vmc::gridkit::Findings;
use vmc::runner;

const TYPICAL: u64 = 150;

fn domain() -> Vec<u64> {
    vec![0, 1, 2, TYPICAL, 1u64 << 32, u64::MAX - 1, u64::MAX]
}

#[derive(Clone, Copy, Debug)]
struct Fields {
    emin: u64,
    emax: u64,
    lease: u64,
    rtt: u64,
    heartbeat: u64,
    cap: u64,
    max_batch: usize,
    max_merge: usize,
    retained: u64,
    catchup: u64,
    raft_timeout: u64,
}

fn base() -> Fields {
    Fields {
        emin: 1000,
        emax: 2000,
        lease: 500,
        rtt: 10,
        heartbeat: 100,
        cap: 100,
        max_batch: 100,
        max_merge: 1000,
        retained: 1,
        catchup: 1,
        raft_timeout: 50,
    }
}

fn config_of(f: &Fields, scratch: &std::path::Path) -> RaftConfig {
    let mut c = RaftConfig::default();
    c.election.election_timeout_min = f.emin;
    c.election.election_timeout_max = f.emax;
    c.read_consistency.lease_duration_ms = f.lease;
    c.read_consistency.network_rtt_p99_ms = f.rtt;
    c.replication.rpc_append_entries_clock_in_ms = f.heartbeat;
    c.replication.append_entries_max_entries_per_replication = f.cap;
    c.batching.max_batch_size = f.max_batch;
    c.batching.max_merge_entries = f.max_merge;
    c.snapshot.retained_log_entries = f.retained;
    c.snapshot.snapshots_dir = scratch.join("snapshots");
    c.learner_catchup_threshold = f.catchup;
    c.general_raft_timeout_duration_in_ms = f.raft_timeout;
    c
}

/// the postconditions of the statement, in exact arithmetic
fn postconditions(f: &Fields) -> Vec<&'static str> {
    let mut broken = vec![];
    let window = f.lease as u128 + (f.rtt as u128) / 2;
    if !(window < f.emin as u128) {
        broken.push("lease window (lease_duration_ms + network_rtt_p99_ms/2) is not shorter than election_timeout_min");
    }
    if !(f.emin < f.emax) {
        broken.push("election_timeout_min is not below election_timeout_max");
    }
    if f.heartbeat == 0 {
        broken.push("heartbeat interval is zero");
    }
    if f.max_batch == 0 {
        broken.push("max_batch_size is zero");
    }
    if f.cap == 0 {
        broken.push("per-request entry limit is zero");
    }
    if f.retained < 1 {
        broken.push("retained_log_entries is zero");
    }
    if f.lease == 0 {
        broken.push("lease window is zero");
    }
    broken
}

fn run_c34(tier: &str, out: &mut std::fs::File) -> i32 {
    let t0 = Instant::now();
    let scratch = runner::scratch_root().join("c34");
    let _ = std::fs::create_dir_all(&scratch);
    let dom = domain();
    let mut findings = Findings::new("C34");
    let mut evaluated = 0u64;
    let mut accepted = 0u64;
    let mut samples = vec![];
    let mut check = |f: &Fields, findings: &mut Findings, samples: &mut Vec<serde_json::Value>| {
        let cfg = config_of(f, &scratch);
        let res = std::panic::catch_unwind(std::panic::AssertUnwindSafe(|| cfg.validate()));
        evaluated += 1;
        let case = json!({"election_timeout_min": f.emin, "election_timeout_max": f.emax,
            "lease_duration_ms": f.lease, "network_rtt_p99_ms": f.rtt, "heartbeat_ms": f.heartbeat,
            "per_request_cap": f.cap, "max_batch_size": f.max_batch, "max_merge_entries": f.max_merge,
            "retained_log_entries": f.retained, "learner_catchup_threshold": f.catchup,
            "general_raft_timeout_ms": f.raft_timeout});
        match res {
            Err(_) => findings.report("validation panics", case),
            Ok(Ok(())) => {
                accepted += 1;
                if samples.len() < 3 {
                    samples.push(case.clone());
                }
                for b in postconditions(f) {
                    findings.report(&format!("accepted configuration whose {b}"), case.clone());
                }
            }
            Ok(Err(_)) => {}
        }
    };
    // full product of the four lease / election fields (the only cross-field check)
    for &emin in &dom {
        for &emax in &dom {
            for &lease in &dom {
                for &rtt in &dom {
                    let mut f = base();
                    f.emin = emin;
                    f.emax = emax;
                    f.lease = lease;
                    f.rtt = rtt;
                    check(&f, &mut findings, &mut samples);
                    // every other field varied one at a time against this tuple
                    if tier == "thorough" || (emin > lease && emin < emax) {
                        for &v in &dom {
                            let mut g = f;
                            g.heartbeat = v;
                            check(&g, &mut findings, &mut samples);
                            let mut g = f;
                            g.cap = v;
                            check(&g, &mut findings, &mut samples);
                            let mut g = f;
                            g.max_batch = v as usize;
                            check(&g, &mut findings, &mut samples);
                            let mut g = f;
                            g.max_merge = v as usize;
                            check(&g, &mut findings, &mut samples);
                            let mut g = f;
                            g.retained = v;
                            check(&g, &mut findings, &mut samples);
                            let mut g = f;
                            g.catchup = v;
                            check(&g, &mut findings, &mut samples);
                            let mut g = f;
                            g.raft_timeout = v;
                            check(&g, &mut findings, &mut samples);
                        }
                    }
                }
            }
        }
    }
    // pairwise product of the single-field limits on a valid timing tuple
    for &a in &dom {
        for &b in &dom {
            let mut g = base();
            g.heartbeat = a;
            g.cap = b;
            check(&g, &mut findings, &mut samples);
            let mut g = base();
            g.max_batch = a as usize;
            g.retained = b;
            check(&g, &mut findings, &mut samples);
            let mut g = base();
            g.cap = a;
            g.max_batch = b as usize;
            check(&g, &mut findings, &mut samples);
            let mut g = base();
            g.heartbeat = a;
            g.retained = b;
            check(&g, &mut findings, &mut samples);
        }
    }
    let exit = findings.finish(out);
    let mut cov = serde_json::Map::new();
    cov.insert("states".into(), json!(evaluated.max(1)));
    cov.insert("transitions".into(), json!(evaluated.max(1)));
    cov.insert("traces_validated_against_impl".into(), json!(evaluated));
    cov.insert("accepted_configurations".into(), json!(accepted));
    cov.insert("samples".into(), json!(samples));
    cov.insert("exhaustive".into(), json!(true));
    cov.insert("domain".into(), json!(["0", "1", "2", "150", "2^32", "u64::MAX-1", "u64::MAX"]));
    cov.insert("distinct_disagreement_classes".into(), json!(findings.classes()));
    cov.insert("known_findings_hit".into(), json!(findings.known_hit()));
    cov.insert("explanation".into(), json!("Full product of the boundary domain over the four lease/election fields (the only cross-field validator), every other limit varied one at a time against the timing tuples and pairwise among themselves; RaftConfig::validate() is called on each configuration and every accepted one is checked against the statement's postconditions in exact (u128) arithmetic."));
    Evidence {
        property: "C34".into(),
        tier: tier.into(),
        level: "model_checking".into(),
        coverage: cov,
        assumptions: vec!["validators of different sub-structures are independent except read_consistency.validate(election_timeout_min)".into()],
        wall_s: t0.elapsed().as_secs_f64(),
        violations: findings.new_violations() as i64,
    }
    .write();
    runner::cleanup_scratch();
    exit
}

fn main() {
    let args: Vec<String> = std::env::args().collect();
    let mut out = runner::silence_stdout();
    let property = args.get(1).cloned().unwrap_or_default();
    let mut tier = std::env::var("VERIF_TIER").unwrap_or_else(|_| "quick".into());
    let mut i = 2;
    while i < args.len() {
        if args[i] == "--tier" && i + 1 < args.len() {
            tier = args[i + 1].clone();
        }
        i += 1;
    }
    let code = match property.as_str() {
        "C34" => run_c34(&tier, &mut out),
        "C13" => vmc::c13::run_c13(&tier, &mut out),
        "C35" => vmc::c13::run_c35(&tier, &mut out),
        "C24" => vmc::c24::run(&tier, &mut out),
        _ => {
            let _ = writeln!(out, "MACHINERY-ERROR unknown property {property} for apimc");
            2
        }
    };
    std::process::exit(code);
}
