//! E4: exhaustive enumeration on the real File / RocksDB state machines.
//! usage: smmc <C22|C35|C23|C15|C16|C25> --tier quick|thorough

use std::io::Write;
use std::time::Instant;

use bytes::Bytes;
use d_engine_core::Command;
use serde_json::json;
use vmc::evidence::Evidence;
use vmc::gridkit::Findings;
use vmc::runner;
use vmc::smkit::*;

fn rt() -> tokio::runtime::Runtime {
    tokio::runtime::Builder::new_multi_thread().worker_threads(2).enable_all().build().unwrap()
}

fn chunks_upto(alpha: &[Command], maxlen: usize) -> Vec<Vec<Command>> {
    let mut out: Vec<Vec<Command>> = vec![];
    let mut level: Vec<Vec<Command>> = vec![vec![]];
    for _ in 0..maxlen {
        let mut next = vec![];
        for p in &level {
            for c in alpha {
                let mut q = p.clone();
                q.push(c.clone());
                next.push(q);
            }
        }
        out.extend(next.iter().cloned());
        level = next;
    }
    out
}

fn key_lists() -> Vec<Vec<Bytes>> {
    let ks: [&[u8]; 3] = [b"a", b"b", b"c"];
    let mut out = vec![];
    for a in ks {
        out.push(vec![b(a)]);
        for bb in ks {
            out.push(vec![b(a), b(bb)]);
            for c in ks {
                out.push(vec![b(a), b(bb), b(c)]);
            }
        }
    }
    out
}

fn sorted(mut v: Vec<(Vec<u8>, Vec<u8>)>) -> Vec<(Vec<u8>, Vec<u8>)> {
    v.sort();
    v
}

struct Counter {
    next: u64,
}
impl Counter {
    fn take(&mut self, n: usize) -> u64 {
        let s = self.next;
        self.next += n as u64;
        s
    }
}

async fn prepare(
    o: &Opened,
    state: &[(Bytes, Bytes)],
    ctr: &mut Counter,
) -> Result<RefKv, String> {
    o.sm.reset().await.map_err(|e| format!("reset: {e:?}"))?;
    let mut r = RefKv::default();
    if !state.is_empty() {
        let cmds: Vec<Command> = state
            .iter()
            .map(|(k, v)| Command::Insert { key: k.clone(), value: v.clone(), ttl_secs: None })
            .collect();
        let start = ctr.take(cmds.len());
        o.sm.apply_chunk(&entries(&cmds, start, 1)).await.map_err(|e| format!("prepare: {e:?}"))?;
        for c in &cmds {
            r.apply(c, 0);
        }
    }
    Ok(r)
}

/// compare every read path of the SM against the reference; returns first disagreement
fn compare_reads(o: &Opened, r: &RefKv, lists: &[Vec<Bytes>]) -> Option<(String, String)> {
    for k in [b"a" as &[u8], b"b", b"c"] {
        let got = o.sm.get(k).ok().flatten().map(|v| v.to_vec());
        let want = r.kv.get(k).map(|v| v.to_vec());
        if got != want {
            return Some(("get".into(), format!("get({:?}) = {:?}, reference {:?}", k, got, want)));
        }
    }
    for l in lists {
        let got = o.sm.get_multi(l).map(|v| v.into_iter().map(|x| x.map(|b| b.to_vec())).collect::<Vec<_>>());
        let want: Vec<Option<Vec<u8>>> = l.iter().map(|k| r.kv.get(k).map(|v| v.to_vec())).collect();
        match got {
            Ok(g) if g == want => {}
            other => {
                return Some((
                    "get_multi".into(),
                    format!("get_multi({:?}) = {:?}, reference {:?}", l, other.map_err(|e| format!("{e:?}")), want),
                ));
            }
        }
    }
    // the empty prefix comes last so that it cannot mask a disagreement on a non-empty one
    for p in [b"a" as &[u8], b"b", b"c", b""] {
        let got = o.sm.scan_prefix(p).map(|s| {
            sorted(s.entries.into_iter().map(|(k, v)| (k.to_vec(), v.to_vec())).collect())
        });
        let want: Vec<(Vec<u8>, Vec<u8>)> =
            r.kv.iter().filter(|(k, _)| k.starts_with(p)).map(|(k, v)| (k.to_vec(), v.to_vec())).collect();
        match got {
            Ok(g) if g == want => {}
            other => {
                return Some((
                    if p.is_empty() { "scan_prefix with an EMPTY prefix".into() } else { "scan_prefix with a non-empty prefix".into() },
                    format!("scan_prefix({:?}) = {:?}, reference {:?}", p, other.map_err(|e| format!("{e:?}")), want),
                ));
            }
        }
    }
    None
}

fn run_c22(tier: &str, property: &str, out: &mut std::fs::File) -> i32 {
    let t0 = Instant::now();
    let maxlen = if tier == "thorough" { 3 } else { 2 };
    let mut findings = Findings::new(property);
    let alpha = alphabet(true);
    let chunks = chunks_upto(&alpha, maxlen);
    let states = all_states(true);
    let lists = key_lists();
    let mut cases = 0u64;
    let mut applies = 0u64;
    let mut samples = vec![];
    let scratch = runner::scratch_root();
    let res: Result<(), String> = rt().block_on(async {
        for engine in [Engine::File, Engine::Rocks] {
            let dir = scratch.join(format!("c22-{}", engine.name()));
            let _ = std::fs::remove_dir_all(&dir);
            let o = open(engine, &dir).await?;
            let mut ctr = Counter { next: 1 };
            for st in &states {
                for chunk in &chunks {
                    if property == "C35" && chunk.len() > 1 {
                        continue;
                    }
                    let mut r = prepare(&o, st, &mut ctr).await?;
                    let start = ctr.take(chunk.len());
                    let es = entries(chunk, start, 2);
                    let res = o.sm.apply_chunk(&es).await;
                    let want: Vec<bool> = chunk.iter().map(|c| r.apply(c, 0)).collect();
                    cases += 1;
                    applies += chunk.len() as u64;
                    let case = json!({"engine": engine.name(),
                        "state": st.iter().map(|(k, v)| (String::from_utf8_lossy(k).to_string(), String::from_utf8_lossy(v).to_string())).collect::<Vec<_>>(),
                        "chunk": chunk.iter().map(describe).collect::<Vec<_>>()});
                    if samples.len() < 3 && chunk.len() == maxlen && !st.is_empty() {
                        samples.push(case.clone());
                    }
                    match res {
                        Err(e) => findings.report(
                            &format!("[{}] apply_chunk fails", engine.name()),
                            json!({"case": case, "error": format!("{e:?}")}),
                        ),
                        Ok(rs) => {
                            let got: Vec<bool> = rs.iter().map(|x| x.succeeded).collect();
                            let idx_ok = rs.iter().zip(es.iter()).all(|(a, e)| a.index == e.index) && rs.len() == es.len();
                            if property == "C22" && (got != want || !idx_ok) {
                                findings.report(
                                    &format!("[{}] per-entry success flags differ from the reference semantics", engine.name()),
                                    json!({"case": case, "got": got, "reference": want}),
                                );
                            }
                            if let Some((path, diff)) = compare_reads(&o, &r, &lists) {
                                let relevant = property == "C22" || path == "get_multi";
                                if relevant {
                                    findings.report(
                                        &format!("[{}] {} disagrees with the reference after the chunk", engine.name(), path),
                                        json!({"case": case, "disagreement": diff}),
                                    );
                                }
                            }
                        }
                    }
                }
            }
            // prefix-boundary keys (0xFF)
            if property == "C22" {
                let ks: Vec<Vec<u8>> = vec![
                    vec![0xFF],
                    vec![0xFF, 0xFF],
                    vec![0x61],
                    vec![0x61, 0xFF],
                    vec![0x61, 0xFF, 0x00],
                    vec![0x62],
                ];
                let prefixes: Vec<Vec<u8>> = vec![
                    vec![],
                    vec![0x61],
                    vec![0x61, 0xFF],
                    vec![0x61, 0xFF, 0xFF],
                    vec![0xFF],
                    vec![0xFF, 0xFF],
                    vec![0x62],
                    vec![0x60],
                ];
                for mask in 0u32..(1 << ks.len()) {
                    let st: Vec<(Bytes, Bytes)> = ks
                        .iter()
                        .enumerate()
                        .filter(|(i, _)| mask & (1 << i) != 0)
                        .map(|(_, k)| (Bytes::from(k.clone()), b(b"v")))
                        .collect();
                    let r = prepare(&o, &st, &mut ctr).await?;
                    cases += 1;
                    for p in &prefixes {
                        let got = o.sm.scan_prefix(p).map(|s| {
                            sorted(s.entries.into_iter().map(|(k, v)| (k.to_vec(), v.to_vec())).collect())
                        });
                        let want: Vec<(Vec<u8>, Vec<u8>)> = r
                            .kv
                            .iter()
                            .filter(|(k, _)| k.starts_with(p))
                            .map(|(k, v)| (k.to_vec(), v.to_vec()))
                            .collect();
                        let ok = matches!(&got, Ok(g) if *g == want);
                        if !ok {
                            findings.report(
                                &format!(
                                    "[{}] scan_prefix with {} over 0xFF-boundary keys disagrees with the reference",
                                    engine.name(),
                                    if p.is_empty() { "an EMPTY prefix" } else { "a non-empty prefix" }
                                ),
                                json!({"engine": engine.name(), "keys": st.iter().map(|(k, _)| k.to_vec()).collect::<Vec<_>>(),
                                       "prefix": p, "got": format!("{:?}", got.map_err(|e| format!("{e:?}"))), "reference": want}),
                            );
                        }
                    }
                }
            }
            let _ = o.sm.stop();
            drop(o);
        }
        Ok(())
    });
    if let Err(e) = res {
        let _ = writeln!(out, "MACHINERY-ERROR property={property} {e}");
        runner::cleanup_scratch();
        return 2;
    }
    let exit = findings.finish(out);
    let mut cov = serde_json::Map::new();
    cov.insert("states".into(), json!((states.len() * 2) as u64));
    cov.insert("transitions".into(), json!(cases.max(1)));
    cov.insert("traces_validated_against_impl".into(), json!(cases));
    cov.insert("commands_applied".into(), json!(applies));
    cov.insert("samples".into(), json!(samples));
    cov.insert("exhaustive".into(), json!(true));
    cov.insert("max_chunk_len".into(), json!(maxlen));
    cov.insert("alphabet_size".into(), json!(alpha.len()));
    cov.insert("key_lists".into(), json!(lists.len()));
    cov.insert("distinct_disagreement_classes".into(), json!(findings.classes()));
    cov.insert("known_findings_hit".into(), json!(findings.known_hit()));
    cov.insert("explanation".into(), json!("From every one of the 16 key-value states over keys {a,b} x values {absent,'',x,y}, every chunk of commands up to the stated length (puts, deletes, CAS with expected in {absent,'',x,y}) is applied to the real File and RocksDB state machines as ONE apply batch and compared with the sequential reference semantics (success flags, get, get_multi over all 39 key lists of length 1..3 incl. duplicates and a missing key, scan_prefix). Since the state machines' behaviour depends only on the key-value state, agreement on every (state, chunk) pair gives agreement for every sequence and every split into batches by induction; both engines are compared with the same reference, hence with each other. states = kv states x engines; transitions = (state, chunk) cases executed."));
    Evidence {
        property: property.into(),
        tier: tier.into(),
        level: "model_checking".into(),
        coverage: cov,
        assumptions: vec![
            "state-machine behaviour depends only on the key-value contents (no hidden state besides the TTL table, which these commands do not populate)".into(),
            "keys {a,b,(c missing)}, values {'',x,y}; prefix-boundary keys in a dedicated 64-subset sweep".into(),
        ],
        wall_s: t0.elapsed().as_secs_f64(),
        violations: findings.new_violations() as i64,
    }
    .write();
    runner::cleanup_scratch();
    exit
}

fn main() {
    let args: Vec<String> = std::env::args().collect();
    let mut out = runner::silence_stdout();
    let property = args.get(1).cloned().unwrap_or_default();
    let mut tier = std::env::var("VERIF_TIER").unwrap_or_else(|_| "quick".into());
    let mut i = 2;
    while i < args.len() {
        if args[i] == "--tier" && i + 1 < args.len() {
            tier = args[i + 1].clone();
        }
        i += 1;
    }
    let code = match property.as_str() {
        "C22" | "C35" => run_c22(&tier, &property, &mut out),
        "C15" => vmc::c15::run(&tier, &mut out),
        "C23" => vmc::c23::run(&tier, &mut out),
        "C25" => vmc::c25::run(&tier, &mut out),
        "C33" => vmc::c33::run(&tier, &mut out),
        "C16" => vmc::snapmc::run_c16(&tier, &mut out),
        "C17" => vmc::snapmc::run_c17(&tier, &mut out),
        _ => {
            let _ = writeln!(out, "MACHINERY-ERROR unknown property {property} for smmc");
            2
        }
    };
    std::process::exit(code);
}
