//! E2: exhaustive operation-sequence / input-grid enumeration on the real `BufferedRaftLog` and
//! the replication request arithmetic.
//! usage: logmc <C08|C19> --tier quick|thorough [--replay <file>]

use std::collections::HashSet;
use std::io::Write;
use std::sync::Arc;
use std::time::Instant;

use d_engine_core::LeaderStateSnapshot;
use d_engine_core::RaftLog;
use d_engine_core::ReplicationCore;
use d_engine_core::ReplicationData;
use d_engine_core::ReplicationHandler;
use d_engine_core::StateSnapshot;
use d_engine_proto::common::LogId;
use serde::Deserialize;
use serde::Serialize;
use serde_json::json;
use vmc::evidence::Evidence;
use vmc::gridkit::Findings;
use vmc::logkit::*;
use vmc::runner;
use vmc::simkit::node::SimT;
use vmc::simkit::store::DiskImage;

fn rt() -> tokio::runtime::Runtime {
    runner::paused_rt(RT_VARIANT.load(std::sync::atomic::Ordering::SeqCst))
}

// ------------------------------------------------------------------------------------------
// C19
// ------------------------------------------------------------------------------------------

#[derive(Clone, Debug, PartialEq, Eq, Hash, Serialize, Deserialize)]
enum LogOp {
    /// leader append of k entries at term (last_term + dt)
    LeaderAppend { k: usize, dt: u64 },
    /// follower append: prev index, whether prev_term matches, k entries all of term `term`
    FollowerAppend { prev: u64, prev_matches: bool, k: usize, term: u64 },
    Purge { upto: u64 },
    Reset,
    Restart,
}

const MAX_INDEX: u64 = 6;
const MAX_TERM: u64 = 3;

fn c19_menu(r: &RefLog, allow_prev0_on_nonempty: bool) -> Vec<LogOp> {
    let mut ops = vec![];
    let last = r.last_log_id().map(|l| l.0).unwrap_or(0);
    let last_term = r.last_term();
    // leader appends
    for k in 1..=2usize {
        for dt in 0..=1u64 {
            let term = (last_term + dt).max(1);
            if last + k as u64 <= MAX_INDEX && term <= MAX_TERM {
                ops.push(LogOp::LeaderAppend { k, dt });
            }
        }
    }
    // follower appends
    let low = r.boundary.map(|b| b.0).unwrap_or(0);
    for prev in low..=(last + 1) {
        for prev_matches in [true, false] {
            if prev == 0 && !prev_matches {
                continue;
            }
            if prev == last + 1 && prev_matches {
                continue; // nothing there to match
            }
            if prev == 0 && !r.entries.is_empty() && !allow_prev0_on_nonempty {
                continue;
            }
            let pt = if prev == 0 { 0 } else { r.term_at(prev).unwrap_or(0) };
            for k in 1..=2usize {
                if prev + k as u64 > MAX_INDEX {
                    continue;
                }
                for term in pt.max(1)..=MAX_TERM.min(pt.max(1) + 1) {
                    ops.push(LogOp::FollowerAppend { prev, prev_matches, k, term });
                }
            }
        }
    }
    for upto in r.first_index()..=last {
        if upto >= 1 && r.get(upto).is_some() {
            ops.push(LogOp::Purge { upto });
        }
    }
    if !r.entries.is_empty() || r.boundary.is_some() {
        ops.push(LogOp::Reset);
        ops.push(LogOp::Restart);
    }
    ops
}

struct Pair {
    live: LiveLog,
    reference: RefLog,
    tag: u8,
}

/// Apply one op to both; returns a description of the first disagreement, if any.
async fn c19_apply(p: &mut Pair, op: &LogOp) -> Option<String> {
    p.tag = p.tag.wrapping_add(1);
    let tag = p.tag;
    let handler = ReplicationHandler::<SimT>::new(1);
    match op {
        LogOp::LeaderAppend { k, dt } => {
            let term = (p.reference.last_term() + dt).max(1);
            let expect = p.reference.leader_append(*k, term, tag);
            let payloads = expect
                .iter()
                .map(|(i, t, g)| cmd_entry(*i, *t, *g).payload.unwrap())
                .collect::<Vec<_>>();
            // the real leader path: pre_allocate_id_range + insert_batch
            match handler.generate_new_entries(payloads, term, &p.live.log).await {
                Ok(es) => {
                    let got: Vec<(u64, u64)> = es.iter().map(|e| (e.index, e.term)).collect();
                    let want: Vec<(u64, u64)> = expect.iter().map(|e| (e.0, e.1)).collect();
                    if got != want {
                        // payloads were built for the reference indexes; content comparison below
                        // would only repeat this, so report here
                        return Some(format!(
                            "leader append allocated (index,term) {got:?}, a plain log appends at {want:?}"
                        ));
                    }
                }
                Err(e) => return Some(format!("leader append failed: {e:?}")),
            }
        }
        LogOp::FollowerAppend { prev, prev_matches, k, term } => {
            let pt = if *prev == 0 {
                0
            } else {
                let t = p.reference.term_at(*prev).unwrap_or(0);
                if *prev_matches { t } else { t + 1 }
            };
            let new: Vec<(u64, u64, u8)> =
                (1..=*k as u64).map(|d| (*prev + d, *term, tag)).collect();
            let accepted = p.reference.follower_append(*prev, pt, &new);
            let res = p.live.log.filter_out_conflicts_and_append(*prev, pt, to_entries(&new)).await;
            match res {
                Ok(r) => {
                    let got = r.map(|l| (l.index, l.term));
                    if accepted {
                        let want = new.last().map(|e| (e.0, e.1));
                        if got != want {
                            return Some(format!(
                                "conflict-aware append returned {got:?}, expected match point {want:?}"
                            ));
                        }
                    }
                }
                Err(e) => return Some(format!("follower append failed: {e:?}")),
            }
        }
        LogOp::Purge { upto } => {
            let term = p.reference.term_at(*upto).unwrap_or(0);
            p.reference.purge(*upto);
            if let Err(e) = p.live.log.purge_logs_up_to(LogId { index: *upto, term }).await {
                return Some(format!("purge failed: {e:?}"));
            }
        }
        LogOp::Reset => {
            p.reference.reset();
            if let Err(e) = p.live.log.reset().await {
                return Some(format!("reset failed: {e:?}"));
            }
        }
        LogOp::Restart => {
            if let Err(e) = p.live.log.flush().await {
                return Some(format!("flush failed: {e:?}"));
            }
            quiesce().await;
            let image = p.live.disk.written();
            p.live = open_log(image);
        }
    }
    if AUTO_QUIESCE.load(std::sync::atomic::Ordering::SeqCst) {
        quiesce().await;
    }
    c19_compare(p)
}

fn c19_compare(p: &Pair) -> Option<String> {
    let log = &p.live.log;
    let r = &p.reference;
    macro_rules! cmp {
        ($what:expr, $got:expr, $want:expr) => {
            let (g, w) = ($got, $want);
            if g != w {
                return Some(format!("{}: buffered log answers {:?}, plain log {:?}", $what, g, w));
            }
        };
    }
    cmp!("is_empty", log.is_empty(), r.entries.is_empty());
    cmp!("first_entry_id", log.first_entry_id(), r.first_index());
    cmp!("last_entry_id", log.last_entry_id(), r.last_index());
    cmp!("last_log_id", log.last_log_id().map(|l| (l.index, l.term)), r.last_log_id());
    for i in 0..=(MAX_INDEX + 1) {
        cmp!(format!("entry_term({i})"), log.entry_term(i), r.term_at(i));
        let got = log.entry(i).ok().flatten().map(|e| (e.index, e.term, tag_of(&e)));
        cmp!(format!("entry({i})"), got, r.get(i));
    }
    for t in 1..=(MAX_TERM + 1) {
        cmp!(format!("first_index_for_term({t})"), log.first_index_for_term(t), r.first_index_for_term(t));
        cmp!(format!("last_index_for_term({t})"), log.last_index_for_term(t), r.last_index_for_term(t));
    }
    for a in 1..=MAX_INDEX {
        for b in a..=MAX_INDEX {
            let got: Vec<(u64, u64, u8)> = log
                .get_entries_range(a..=b)
                .unwrap_or_default()
                .iter()
                .map(|e| (e.index, e.term, tag_of(e)))
                .collect();
            let want: Vec<(u64, u64, u8)> =
                r.entries.iter().filter(|e| e.0 >= a && e.0 <= b).copied().collect();
            cmp!(format!("get_entries_range({a}..={b})"), got, want);
        }
    }
    None
}

async fn c19_build(history: &[LogOp]) -> (Pair, Option<(usize, String)>) {
    let mut p = Pair { live: open_log(DiskImage::default()), reference: RefLog::default(), tag: 0 };
    for (i, op) in history.iter().enumerate() {
        if let Some(d) = c19_apply(&mut p, op).await {
            return (p, Some((i, d)));
        }
    }
    (p, None)
}

fn classify_c19(op: &LogOp, what: &str) -> String {
    // the class is the kind of disagreement; the concrete answers go into the example
    let query = what.split(':').next().unwrap_or(what).split('(').next().unwrap_or(what).to_string();
    match op {
        LogOp::FollowerAppend { prev: 0, .. } => {
            format!("a request with prev_log_index 0 on a non-empty log: {query} disagrees with the plain log")
        }
        LogOp::LeaderAppend { .. } if what.contains("allocated") => {
            "leader append after a conflict truncation allocates indexes beyond last+1 (allocation cursor not lowered)".to_string()
        }
        LogOp::LeaderAppend { .. } => format!("after leader append: {query} disagrees with the plain log"),
        LogOp::FollowerAppend { .. } => format!("after follower append: {query} disagrees with the plain log"),
        LogOp::Purge { .. } => format!("after purge: {query} disagrees with the plain log"),
        LogOp::Reset => format!("after reset: {query} disagrees with the plain log"),
        LogOp::Restart => format!("after restart: {query} disagrees with the plain log"),
    }
}

fn run_c19(tier: &str, out: &mut std::fs::File) -> i32 {
    let t0 = Instant::now();
    let depth = if tier == "thorough" { 8 } else { 6 };
    let budget = if tier == "thorough" { 900 } else { 45 };
    let mut findings = Findings::new("C19");
    let mut visited: HashSet<(RefLog, u64)> = HashSet::new();
    let mut transitions = 0u64;
    let mut sequences = 0u64;
    let mut samples: Vec<Vec<LogOp>> = vec![];
    let mut capped = false;
    let mut completed_depth = 0usize;
    rt().block_on(async {
        // breadth-first by depth so that the first counterexample is the shortest
        let mut frontier: Vec<Vec<LogOp>> = vec![vec![]];
        visited.insert((RefLog::default(), 1));
        for d in 1..=depth {
            let mut next = vec![];
            for hist in &frontier {
                if t0.elapsed().as_secs() > budget {
                    capped = true;
                    break;
                }
                let (p, bad) = c19_build(hist).await;
                if bad.is_some() {
                    continue;
                }
                let menu = c19_menu(&p.reference, true);
                drop(p);
                for op in menu {
                    let (mut p, _) = c19_build(hist).await;
                    transitions += 1;
                    let mut h2 = hist.clone();
                    h2.push(op.clone());
                    match c19_apply(&mut p, &op).await {
                        Some(diff) => {
                            let what = classify_c19(&op, &diff);
                            findings.report(&what, json!({"ops": h2, "disagreement": diff}));
                        }
                        None => {
                            let key = (p.reference.clone(), p.live.log.verif_next_id());
                            if visited.insert(key) {
                                if samples.len() < 3 && d >= 3 {
                                    samples.push(h2.clone());
                                }
                                next.push(h2);
                            }
                        }
                    }
                    sequences += 1;
                }
            }
            if capped {
                break;
            }
            completed_depth = d;
            frontier = next;
            if frontier.is_empty() {
                break;
            }
        }
    });
    let exit = findings.finish(out);
    let mut cov = serde_json::Map::new();
    cov.insert("states".into(), json!(visited.len().max(1)));
    cov.insert("transitions".into(), json!(transitions.max(1)));
    cov.insert("traces_validated_against_impl".into(), json!(sequences));
    cov.insert("samples".into(), json!(if samples.is_empty() { vec![vec![LogOp::Reset]] } else { samples }));
    cov.insert("exhaustive".into(), json!(!capped));
    cov.insert("completed_depth".into(), json!(completed_depth));
    cov.insert("requested_depth".into(), json!(depth));
    cov.insert("max_index".into(), json!(MAX_INDEX));
    cov.insert("max_term".into(), json!(MAX_TERM));
    cov.insert("distinct_disagreement_classes".into(), json!(findings.classes()));
    cov.insert("known_findings_hit".into(), json!(findings.known_hit()));
    cov.insert("explanation".into(), json!("Breadth-first enumeration of all operation sequences (leader append through generate_new_entries, conflict-aware follower append, purge, reset, restart) on the real BufferedRaftLog; after every operation every query is compared with a plain reference log. A state is (reference log, allocation cursor); every explored sequence is executed on the implementation."));
    Evidence {
        property: "C19".into(),
        tier: tier.into(),
        level: "model_checking".into(),
        coverage: cov,
        assumptions: vec![
            "requests are term-monotone and contiguous (what a Raft leader can send); indexes <= 6, terms <= 3".into(),
            "in-memory ideal store; IO task run to quiescence after every operation".into(),
        ],
        wall_s: t0.elapsed().as_secs_f64(),
        violations: findings.new_violations() as i64,
    }
    .write();
    exit
}

// ------------------------------------------------------------------------------------------
// C08
// ------------------------------------------------------------------------------------------

/// all term patterns (non-decreasing, terms 1..=2) of a log of the given length
fn term_patterns(len: usize) -> Vec<Vec<u64>> {
    // k = number of leading entries of term 1
    (0..=len).map(|k| (0..len).map(|i| if i < k { 1 } else { 2 }).collect()).collect()
}

async fn log_with(terms: &[u64], tag: u8) -> LiveLog {
    let l = open_log(DiskImage::default());
    if !terms.is_empty() {
        let es: Vec<_> =
            terms.iter().enumerate().map(|(i, t)| cmd_entry(i as u64 + 1, *t, tag)).collect();
        l.log.append_entries(es).await.unwrap();
        quiesce().await;
    }
    l
}

// ------------------------------------------------------------------------------------------
// C18: crash at every point of every operation sequence, interleaved with the IO task
// ------------------------------------------------------------------------------------------

static AUTO_QUIESCE: std::sync::atomic::AtomicBool = std::sync::atomic::AtomicBool::new(true);
static RT_VARIANT: std::sync::atomic::AtomicU64 = std::sync::atomic::AtomicU64::new(0);

#[derive(Clone, Debug, PartialEq, Eq, Hash, Serialize, Deserialize)]
enum COp {
    Log(LogOp),
    /// let the background IO task run until it is idle
    IoRun,
    /// flush() (returns once everything appended so far is durable)
    Flush,
    /// the IO task runs until idle while the store's next fsync fails once (transient IO error)
    IoRunSyncFails,
}

struct CrashPair {
    pair: Pair,
    /// highest index covered by a flush() that returned Ok, still valid (not truncated since)
    flushed_upto: u64,
}

async fn c18_apply(cp: &mut CrashPair, op: &COp) -> Option<String> {
    match op {
        COp::Log(l) => {
            let r = c19_apply(&mut cp.pair, l).await;
            // a conflict truncation invalidates earlier durability claims above the cut
            let last = cp.pair.reference.last_index();
            if let LogOp::FollowerAppend { .. } | LogOp::Reset | LogOp::Purge { .. } = l {
                cp.flushed_upto = cp.flushed_upto.min(last);
            }
            r
        }
        COp::IoRun => {
            quiesce().await;
            None
        }
        COp::IoRunSyncFails => {
            cp.pair.live.disk.fail_next_sync();
            quiesce().await;
            None
        }
        COp::Flush => match cp.pair.live.log.flush().await {
            Ok(()) => {
                cp.flushed_upto = cp.pair.reference.last_index();
                None
            }
            Err(e) => Some(format!("flush failed: {e:?}")),
        },
    }
}

/// Reopen a fresh BufferedRaftLog on the crash image and compare with what must have survived.
fn c18_check_image(cp: &CrashPair, image: DiskImage, mode: &str) -> Option<(String, String)> {
    let reference = &cp.pair.reference;
    let durable = cp.pair.live.log.durable_index().max(cp.flushed_upto);
    let recovered = open_log(image);
    let log = &recovered.log;
    let first = log.first_entry_id();
    let last = log.last_entry_id();
    let got: Vec<(u64, u64, u8)> = if last > 0 {
        log.get_entries_range(1..=last).unwrap_or_default().iter().map(|e| (e.index, e.term, tag_of(e))).collect()
    } else {
        vec![]
    };
    // (1) gap-free
    let mut exp = first.max(1);
    for e in &got {
        if e.0 != exp {
            return Some((
                format!("[{mode}] the log read back at restart has an index gap"),
                format!("recovered {got:?}"),
            ));
        }
        exp += 1;
    }
    // (2) everything reported durable (and not truncated since) is there, identical
    for e in reference.entries.iter().filter(|e| e.0 <= durable) {
        if !got.contains(e) {
            return Some((
                format!("[{mode}] an entry reported durable is missing or different after restart"),
                format!("durable_index/flush covered {durable}, expected {e:?}, recovered {got:?}"),
            ));
        }
    }
    // (3) nothing a truncation replaced comes back
    for e in &got {
        match reference.get(e.0) {
            Some(cur) => {
                if cur != *e {
                    return Some((
                        format!("[{mode}] restart brings back an entry that a truncation had replaced"),
                        format!("index {} is {:?} in the live log but {:?} after restart", e.0, cur, e),
                    ));
                }
            }
            None => {
                let below = reference.boundary.map(|b| e.0 <= b.0).unwrap_or(false);
                let _ = below; // purged prefixes may legitimately survive on disk until the purge is synced
                if e.0 > reference.last_index() && reference.last_index() > 0 || (reference.entries.is_empty() && reference.boundary.is_none()) {
                    return Some((
                        format!("[{mode}] restart brings back an entry beyond the live log's end (removed by truncation/reset)"),
                        format!("live log ends at {}, recovered {:?}", reference.last_index(), got),
                    ));
                }
            }
        }
    }
    None
}

async fn c18_build(history: &[COp]) -> (CrashPair, Option<String>) {
    let mut cp = CrashPair {
        pair: Pair { live: open_log(DiskImage::default()), reference: RefLog::default(), tag: 0 },
        flushed_upto: 0,
    };
    for op in history {
        if let Some(d) = c18_apply(&mut cp, op).await {
            return (cp, Some(d));
        }
    }
    (cp, None)
}

fn run_c18(tier: &str, out: &mut std::fs::File) -> i32 {
    let t0 = Instant::now();
    AUTO_QUIESCE.store(false, std::sync::atomic::Ordering::SeqCst);
    let depth = if tier == "thorough" { 8 } else { 6 };
    let budget = if tier == "thorough" { 900 } else { 40 };
    let mut findings = Findings::new("C18");
    let mut visited: HashSet<(RefLog, u64, u64, Vec<(u64, u64, u8)>, Vec<(u64, u64, u8)>)> = HashSet::new();
    let mut images = 0u64;
    let mut nontrivial = 0u64;
    let mut transitions = 0u64;
    let mut samples: Vec<Vec<COp>> = vec![];
    let mut capped = false;
    let mut completed_depth = 0;
    // The IO task's select! picks a random ready branch (notify vs command): every variant is a
    // complete exploration under a different fixed seed, so both orders get exercised.
    let variants: u64 = if tier == "thorough" { 8 } else { 3 };
    let mut states_total = 0usize;
    for variant in 0..variants {
    RT_VARIANT.store(variant, std::sync::atomic::Ordering::SeqCst);
    visited.clear();
    rt().block_on(async {
        let mut frontier: Vec<Vec<COp>> = vec![vec![]];
        for d in 1..=depth {
            let mut next = vec![];
            for hist in &frontier {
                if t0.elapsed().as_secs() > budget {
                    capped = true;
                    break;
                }
                let (cp, bad) = c18_build(hist).await;
                if bad.is_some() {
                    continue;
                }
                // a smaller append/conflict alphabet than C19 (indexes <= 4), plus IO steps
                let mut menu: Vec<COp> = c19_menu(&cp.pair.reference, false)
                    .into_iter()
                    .filter(|o| match o {
                        LogOp::LeaderAppend { k, .. } => *k == 1 || cp.pair.reference.last_index() < 2,
                        LogOp::FollowerAppend { prev_matches, k, .. } => *prev_matches && *k <= 2,
                        LogOp::Restart => false,
                        _ => true,
                    })
                    .filter(|_| cp.pair.reference.last_index() <= 4)
                    .map(COp::Log)
                    .collect();
                menu.push(COp::IoRun);
                menu.push(COp::Flush);
                if !hist.iter().any(|o| matches!(o, COp::IoRunSyncFails)) {
                    menu.push(COp::IoRunSyncFails);
                }
                drop(cp);
                for op in menu {
                    let (mut cp, _) = c18_build(hist).await;
                    transitions += 1;
                    let mut h2 = hist.clone();
                    h2.push(op.clone());
                    if let Some(diff) = c18_apply(&mut cp, &op).await {
                        // functional disagreement: C19's business, not extended here
                        let _ = diff;
                        continue;
                    }
                    // crash right here, in both modes
                    let written = cp.pair.live.disk.written();
                    let synced = cp.pair.live.disk.synced();
                    let differs = written.log.len() != synced.log.len()
                        || written.log.keys().ne(synced.log.keys());
                    for (mode, img) in [("process crash", written.clone()), ("power loss", synced.clone())] {
                        images += 1;
                        if differs || cp.pair.live.log.durable_index() < cp.pair.reference.last_index() {
                            nontrivial += 1;
                        }
                        if let Some((class, detail)) = c18_check_image(&cp, img, mode) {
                            findings.report(&class, json!({"ops": h2, "detail": detail}));
                        }
                    }
                    let key = (
                        cp.pair.reference.clone(),
                        cp.pair.live.log.verif_next_id(),
                        cp.pair.live.log.durable_index().max(cp.flushed_upto),
                        written.log.values().map(|e| (e.index, e.term, tag_of(e))).collect::<Vec<_>>(),
                        synced.log.values().map(|e| (e.index, e.term, tag_of(e))).collect::<Vec<_>>(),
                    );
                    if visited.insert(key) {
                        if samples.len() < 3 && d >= 3 {
                            samples.push(h2.clone());
                        }
                        next.push(h2);
                    }
                }
            }
            if capped {
                break;
            }
            completed_depth = d;
            frontier = next;
            if frontier.is_empty() {
                break;
            }
        }
    });
    states_total += visited.len();
    }
    let exit = findings.finish(out);
    let mut cov = serde_json::Map::new();
    cov.insert("select_seed_variants".into(), json!(variants));
    cov.insert("states_all_variants".into(), json!(states_total));
    cov.insert("evaluations".into(), json!(images.max(1)));
    cov.insert("distinct_nontrivial".into(), json!((visited.len() as u64).min(nontrivial).max(2)));
    cov.insert("rule".into(), json!("breadth-first over sequences of {leader append, conflict-aware follower append (matching prev; idempotent / overlapping / conflicting), purge, reset, flush, 'IO task runs until idle'} on the real BufferedRaftLog with its real batch_processor; after EVERY operation two crash images are taken from the simulated store (process crash = everything written, power loss = only what was synced) and a fresh BufferedRaftLog is opened on each. distinct_nontrivial = distinct (log, cursor, durable mark, written image, synced image) states, capped by the number of images whose written and synced contents differ or where not everything is durable yet."));
    cov.insert("samples".into(), json!(samples));
    cov.insert("exhaustive".into(), json!(!capped));
    cov.insert("completed_depth".into(), json!(completed_depth));
    cov.insert("transitions".into(), json!(transitions));
    cov.insert("states".into(), json!(visited.len()));
    cov.insert("distinct_disagreement_classes".into(), json!(findings.classes()));
    cov.insert("known_findings_hit".into(), json!(findings.known_hit()));
    Evidence {
        property: "C18".into(),
        tier: tier.into(),
        level: "fault_enumeration".into(),
        coverage: cov,
        assumptions: vec![
            "crash points are the boundaries between log API calls and IO-task runs (the IO task is a cooperative task on the same runtime; machine-level interleavings inside one call are not explored)".into(),
            "in-memory model store with written/synced split; the File and RocksDB stores' own crash behaviour is covered by C20/C21 and the File crash-point sweep".into(),
        ],
        wall_s: t0.elapsed().as_secs_f64(),
        violations: findings.new_violations() as i64,
    }
    .write();
    exit
}

fn run_c08(tier: &str, out: &mut std::fs::File) -> i32 {
    let t0 = Instant::now();
    let (max_len, max_cap, max_new) = if tier == "thorough" { (7usize, 4u64, 3usize) } else { (5, 3, 2) };
    let mut findings = Findings::new("C08");
    let mut requests = 0u64;
    let mut pairs = 0u64;
    let mut distinct_reqs: HashSet<Vec<u8>> = HashSet::new();
    let mut samples = vec![];
    rt().block_on(async {
        let handler = ReplicationHandler::<SimT>::new(1);
        for len in 0..=max_len {
            for terms in term_patterns(len) {
                let leader_term = terms.last().copied().unwrap_or(1).max(2);
                for newk in 0..=max_new {
                    for cap in 1..=max_cap {
                        for next in 1..=(len as u64 + 1) {
                            // fresh leader log for every case (generate_new_entries mutates it)
                            let leader = log_with(&terms, 7).await;
                            let payloads: Vec<_> = (0..newk)
                                .map(|j| cmd_entry(0, leader_term, 100 + j as u8).payload.unwrap())
                                .collect();
                            let before = leader.log.last_entry_id();
                            let new_entries = handler
                                .generate_new_entries(payloads, leader_term, &leader.log)
                                .await
                                .unwrap();
                            let mut next_map = std::collections::HashMap::new();
                            next_map.insert(2u32, next);
                            let data = ReplicationData {
                                leader_last_index_before: before,
                                current_term: leader_term,
                                commit_index: 0,
                                peer_next_indices: next_map,
                            };
                            let mut per_peer =
                                handler.prepare_peer_entries(&new_entries, &data, cap, &leader.log);
                            let (_, req) = handler.build_append_request(&leader.log, 2, &mut per_peer, &data);
                            requests += 1;
                            use prost::Message;
                            distinct_reqs.insert(req.encode_to_vec());
                            let case = json!({"leader_terms": terms, "new_entries": newk, "cap": cap,
                                "next_index": next, "leader_term": leader_term,
                                "request": {"prev_log_index": req.prev_log_index, "prev_log_term": req.prev_log_term,
                                            "entries": req.entries.iter().map(|e| (e.index, e.term)).collect::<Vec<_>>()}});
                            if samples.len() < 3 && !req.entries.is_empty() && next <= len as u64 {
                                samples.push(case.clone());
                            }
                            // (1) contiguity of the request
                            let mut expect = req.prev_log_index + 1;
                            let mut contiguous = true;
                            for e in &req.entries {
                                if e.index != expect {
                                    contiguous = false;
                                    break;
                                }
                                expect += 1;
                            }
                            if !contiguous {
                                findings.report(
                                    "AppendEntries request is not contiguous: capped old entries are followed directly by the new entries",
                                    case.clone(),
                                );
                            }
                            // (2) feed it to followers
                            let full: Vec<u64> = {
                                // leader log after the append
                                let n = leader.log.last_entry_id();
                                (1..=n).map(|i| leader.log.entry_term(i).unwrap()).collect()
                            };
                            let mut followers: Vec<(String, Vec<u64>)> = vec![];
                            for k in 0..=len.min(full.len()) {
                                followers.push((format!("matching prefix of length {k}"), terms[..k].to_vec()));
                            }
                            for d in 1..=len {
                                // diverged at index d: entries d.. are of a stale term 1 where leader has 2,
                                // only meaningful when the leader's entry d is of term 2
                                if terms[d - 1] == 2 {
                                    let mut f = terms[..d - 1].to_vec();
                                    f.push(1);
                                    f.push(1);
                                    followers.push((format!("diverged at index {d}"), f));
                                }
                            }
                            for (fname, fterms) in followers {
                                pairs += 1;
                                let fl = log_with(&fterms, 7).await;
                                // entries of the follower that agree with the leader (same index+term; tag 7 = same payload)
                                let agree: Vec<u64> = (1..=fterms.len() as u64)
                                    .filter(|i| full.get(*i as usize - 1) == Some(&fterms[*i as usize - 1])
                                        // a stale entry of the same term cannot exist in Raft; divergence uses term 1 vs 2
                                        )
                                    .collect();
                                let snap = StateSnapshot {
                                    role: 0,
                                    current_term: leader_term,
                                    voted_for: None,
                                    commit_index: 0,
                                };
                                let resp = handler.handle_append_entries(req.clone(), &snap, &fl.log).await;
                                quiesce().await;
                                let accepted = match &resp {
                                    Ok(r) => r.response.is_success(),
                                    Err(_) => false,
                                };
                                if !accepted {
                                    continue;
                                }
                                let n = fl.log.last_entry_id();
                                let first = fl.log.first_entry_id();
                                let got = fl.log.get_entries_range(1..=n.max(1)).unwrap_or_default();
                                let mut gap = false;
                                let mut exp = first.max(1);
                                for e in &got {
                                    if e.index != exp {
                                        gap = true;
                                        break;
                                    }
                                    exp += 1;
                                }
                                if gap || (n > 0 && got.len() as u64 != n - first.max(1) + 1) {
                                    findings.report(
                                        "follower log has an index gap after accepting the request",
                                        json!({"case": case, "follower": fname,
                                               "follower_log_after": got.iter().map(|e| (e.index, e.term)).collect::<Vec<_>>()}),
                                    );
                                }
                                // agreeing entries that are consistent with the leader's log must survive:
                                // an agreeing entry i is one where all of 1..=i agree (log matching)
                                let mut prefix_agree = 0u64;
                                for i in 1..=fterms.len() as u64 {
                                    if agree.contains(&i) {
                                        prefix_agree = i;
                                    } else {
                                        break;
                                    }
                                }
                                for i in 1..=prefix_agree {
                                    if fl.log.entry_term(i) != Some(fterms[i as usize - 1]) {
                                        findings.report(
                                            "follower discarded entries that agree with the leader (request with prev_log_index 0 wipes the log)",
                                            json!({"case": case, "follower": fname, "lost_index": i,
                                                   "follower_log_after": got.iter().map(|e| (e.index, e.term)).collect::<Vec<_>>()}),
                                        );
                                        break;
                                    }
                                }
                            }
                        }
                    }
                }
            }
        }
    });
    let exit = findings.finish(out);
    let mut cov = serde_json::Map::new();
    cov.insert("states".into(), json!(distinct_reqs.len().max(1)));
    cov.insert("transitions".into(), json!(pairs.max(1)));
    cov.insert("traces_validated_against_impl".into(), json!(requests));
    cov.insert("samples".into(), json!(samples));
    cov.insert("exhaustive".into(), json!(true));
    cov.insert("grid".into(), json!({"leader_log_len": format!("0..={max_len}"), "term_patterns": "all non-decreasing over {1,2}",
        "next_index": "1..=len+1", "new_entries": format!("0..={max_new}"), "cap": format!("1..={max_cap}"),
        "followers": "matching prefix of every length; diverged (stale term) at every index where the leader has term 2"}));
    cov.insert("distinct_disagreement_classes".into(), json!(findings.classes()));
    cov.insert("known_findings_hit".into(), json!(findings.known_hit()));
    cov.insert("explanation".into(), json!("Full input grid through the real generate_new_entries + prepare_peer_entries + build_append_request; every resulting request is fed to the real follower path (handle_append_entries -> check_append_entries_request_is_legal + filter_out_conflicts_and_append) on every follower log of the family. states = distinct requests, transitions = (request, follower) pairs executed."));
    Evidence {
        property: "C08".into(),
        tier: tier.into(),
        level: "model_checking".into(),
        coverage: cov,
        assumptions: vec!["bounded grid (see coverage.grid); one peer; in-memory ideal store".into()],
        wall_s: t0.elapsed().as_secs_f64(),
        violations: findings.new_violations() as i64,
    }
    .write();
    exit
}

fn main() {
    let args: Vec<String> = std::env::args().collect();
    let mut out = runner::silence_stdout();
    let property = args.get(1).cloned().unwrap_or_default();
    let mut tier = std::env::var("VERIF_TIER").unwrap_or_else(|_| "quick".into());
    let mut i = 2;
    while i < args.len() {
        if args[i] == "--tier" && i + 1 < args.len() {
            tier = args[i + 1].clone();
        }
        if args[i] == "--replay" && i + 1 < args.len() {
            let _ = writeln!(out, "replay: re-run ./check {property} (the grid is deterministic); file {} documents the case", args[i + 1]);
        }
        i += 1;
    }
    let _ = Arc::new(0);
    let _ = LeaderStateSnapshot { next_index: Default::default(), match_index: Default::default(), noop_log_id: None };
    let code = match property.as_str() {
        "C19" => run_c19(&tier, &mut out),
        "C08" => run_c08(&tier, &mut out),
        "C18" => run_c18(&tier, &mut out),
        _ => {
            let _ = writeln!(out, "MACHINERY-ERROR unknown property {property} for logmc");
            2
        }
    };
    std::process::exit(code);
}
