//! E3: operation-sequence and crash-point enumeration on the real File / RocksDB log and meta
//! stores.  usage: storemc <C20|C21> --tier quick|thorough

use std::collections::BTreeMap;
use std::collections::HashSet;
use std::io::Write;
use std::path::Path;
use std::path::PathBuf;
use std::sync::Arc;
use std::sync::Mutex;
use std::time::Instant;

use d_engine_core::HardState;
use d_engine_core::LogStore;
use d_engine_core::MetaStore;
use d_engine_core::StorageEngine;
use d_engine_proto::common::LogId;
use d_engine_proto::server::election::VotedFor;
use d_engine_server::FileStorageEngine;
use d_engine_server::RocksDBStorageEngine;
use serde::Serialize;
use serde_json::json;
use vmc::evidence::Evidence;
use vmc::gridkit::Findings;
use vmc::logkit::cmd_entry;
use vmc::logkit::tag_of;
use vmc::runner;

fn rt() -> tokio::runtime::Runtime {
    tokio::runtime::Builder::new_current_thread().enable_all().build().unwrap()
}

#[derive(Clone, Copy, Debug, PartialEq, Eq, Hash, Serialize)]
enum Eng {
    File,
    Rocks,
}

enum Engine {
    File(FileStorageEngine),
    Rocks(RocksDBStorageEngine),
}

impl Engine {
    fn open(e: Eng, dir: &Path) -> Result<Engine, String> {
        match e {
            Eng::File => FileStorageEngine::new(dir.to_path_buf()).map(Engine::File).map_err(|x| format!("{x:?}")),
            Eng::Rocks => RocksDBStorageEngine::new(dir).map(Engine::Rocks).map_err(|x| format!("{x:?}")),
        }
    }
    fn log(&self) -> Arc<dyn LogStore> {
        match self {
            Engine::File(e) => e.log_store(),
            Engine::Rocks(e) => e.log_store(),
        }
    }
    fn meta(&self) -> Arc<dyn MetaStore> {
        match self {
            Engine::File(e) => e.meta_store(),
            Engine::Rocks(e) => e.meta_store(),
        }
    }
}

fn copy_dir(from: &Path, to: &Path) {
    let _ = std::fs::create_dir_all(to);
    if let Ok(rd) = std::fs::read_dir(from) {
        for e in rd.flatten() {
            let p = e.path();
            let t = to.join(e.file_name());
            if p.is_dir() {
                copy_dir(&p, &t);
            } else {
                let _ = std::fs::copy(&p, &t);
            }
        }
    }
}

// ------------------------------------------------------------------------------------------
// C20
// ------------------------------------------------------------------------------------------

#[derive(Clone, Debug, PartialEq, Eq, Hash, Serialize)]
enum SOp {
    Persist(Vec<u64>),
    Truncate(u64),
    Replace(u64, usize),
    Purge(u64),
    Reset,
    Flush,
    Reopen,
}

#[derive(Clone, Debug, Default, PartialEq, Eq, Hash)]
struct RefStore {
    entries: BTreeMap<u64, (u64, u8)>, // index -> (term, tag)
    boundary: Option<(u64, u64)>,
}

impl RefStore {
    fn last_index(&self) -> u64 {
        // the largest index currently stored (0 when nothing is stored)
        self.entries.keys().next_back().copied().unwrap_or(0)
    }
}

fn c20_alphabet() -> Vec<SOp> {
    let mut v = vec![];
    for set in [vec![1], vec![2], vec![1, 2], vec![2, 3], vec![3], vec![4], vec![3, 1], vec![1, 2, 3]] {
        v.push(SOp::Persist(set));
    }
    for i in 1..=4 {
        v.push(SOp::Truncate(i));
    }
    for i in 1..=3 {
        v.push(SOp::Replace(i, 1));
        v.push(SOp::Replace(i, 2));
    }
    v.push(SOp::Replace(2, 0));
    for i in 1..=3 {
        v.push(SOp::Purge(i));
    }
    v.push(SOp::Reset);
    v.push(SOp::Flush);
    v.push(SOp::Reopen);
    v
}

struct Live {
    eng: Eng,
    dir: PathBuf,
    engine: Option<Engine>,
    reference: RefStore,
    tag: u8,
}

async fn c20_apply(l: &mut Live, op: &SOp) -> Result<(), String> {
    l.tag = l.tag.wrapping_add(1);
    let tag = l.tag;
    let term = tag as u64; // re-written indexes get a new term and payload
    let log = l.engine.as_ref().unwrap().log();
    match op {
        SOp::Persist(set) => {
            let es: Vec<_> = set.iter().map(|i| cmd_entry(*i, term, tag)).collect();
            for i in set {
                l.reference.entries.insert(*i, (term, tag));
            }
            log.persist_entries(es).await.map_err(|e| format!("{e:?}"))?;
        }
        SOp::Truncate(i) => {
            l.reference.entries.split_off(i);
            log.truncate(*i).await.map_err(|e| format!("{e:?}"))?;
        }
        SOp::Replace(i, k) => {
            l.reference.entries.split_off(i);
            let es: Vec<_> = (0..*k as u64).map(|d| cmd_entry(*i + d, term, tag)).collect();
            for d in 0..*k as u64 {
                l.reference.entries.insert(*i + d, (term, tag));
            }
            log.replace_range(*i, es).await.map_err(|e| format!("{e:?}"))?;
        }
        SOp::Purge(i) => {
            // term of the cutoff position: the entry's, or the boundary's when it is already purged
            let t = l
                .reference
                .entries
                .get(i)
                .map(|x| x.0)
                .or_else(|| l.reference.boundary.filter(|b| b.0 == *i).map(|b| b.1))
                .unwrap_or(0);
            let keep = l.reference.entries.split_off(&(*i + 1));
            l.reference.entries = keep;
            if l.reference.boundary.map(|b| b.0 <= *i).unwrap_or(true) {
                l.reference.boundary = Some((*i, t));
            }
            log.purge(LogId { index: *i, term: t }).await.map_err(|e| format!("{e:?}"))?;
        }
        SOp::Reset => {
            l.reference.entries.clear();
            l.reference.boundary = None;
            log.reset().await.map_err(|e| format!("{e:?}"))?;
        }
        SOp::Flush => {
            log.flush().map_err(|e| format!("{e:?}"))?;
        }
        SOp::Reopen => {
            drop(log);
            l.engine = None;
            l.engine = Some(Engine::open(l.eng, &l.dir)?);
        }
    }
    Ok(())
}

/// (query, got, want) of the first disagreement
async fn c20_compare(l: &Live) -> Option<(String, String)> {
    let log = l.engine.as_ref().unwrap().log();
    let r = &l.reference;
    if log.last_index() != r.last_index() {
        return Some((
            "last_index".into(),
            format!("last_index() = {}, reference {}", log.last_index(), r.last_index()),
        ));
    }
    let got: Vec<(u64, u64, u8)> =
        log.get_entries(1..=6).unwrap_or_default().iter().map(|e| (e.index, e.term, tag_of(e))).collect();
    let want: Vec<(u64, u64, u8)> = r.entries.iter().map(|(i, (t, g))| (*i, *t, *g)).collect();
    if got != want {
        return Some(("get_entries".into(), format!("get_entries(1..=6) = {got:?}, reference {want:?}")));
    }
    for i in 1..=5u64 {
        let g = log.entry(i).await.ok().flatten().map(|e| (e.index, e.term, tag_of(&e)));
        let w = r.entries.get(&i).map(|(t, tg)| (i, *t, *tg));
        if g != w {
            return Some(("entry".into(), format!("entry({i}) = {g:?}, reference {w:?}")));
        }
    }
    let gb = log.load_purge_boundary().ok().flatten().map(|b| (b.index, b.term));
    if gb != r.boundary {
        return Some((
            "load_purge_boundary".into(),
            format!("load_purge_boundary() = {gb:?}, reference {:?}", r.boundary),
        ));
    }
    None
}

async fn c20_build(eng: Eng, dir: &Path, hist: &[SOp]) -> Result<(Live, Option<(usize, String, String)>), String> {
    let _ = std::fs::remove_dir_all(dir);
    let mut l = Live { eng, dir: dir.to_path_buf(), engine: Some(Engine::open(eng, dir)?), reference: RefStore::default(), tag: 0 };
    for (i, op) in hist.iter().enumerate() {
        c20_apply(&mut l, op).await?;
        if let Some((q, d)) = c20_compare(&l).await {
            return Ok((l, Some((i, q, d))));
        }
    }
    Ok((l, None))
}

fn op_kind(op: &SOp) -> &'static str {
    match op {
        SOp::Persist(s) => {
            if s.windows(2).any(|w| w[1] < w[0]) {
                "out-of-order persist"
            } else {
                "persist"
            }
        }
        SOp::Truncate(_) => "truncate",
        SOp::Replace(..) => "replace_range",
        SOp::Purge(_) => "purge",
        SOp::Reset => "reset",
        SOp::Flush => "flush",
        SOp::Reopen => "reopen",
    }
}

/// true if some write in the history stores an index at or below an index stored before it
/// (a re-write or a lower index): the store then no longer holds its records in ascending order
fn non_ascending_writes(hist: &[SOp]) -> bool {
    let mut present: std::collections::BTreeSet<u64> = Default::default();
    for op in hist {
        match op {
            SOp::Persist(set) => {
                for i in set {
                    if present.iter().next_back().map(|m| *i <= *m).unwrap_or(false) {
                        return true;
                    }
                    present.insert(*i);
                }
            }
            SOp::Truncate(i) => {
                present.split_off(i);
            }
            SOp::Replace(i, k) => {
                present.split_off(i);
                for d in 0..*k as u64 {
                    present.insert(*i + d);
                }
            }
            SOp::Purge(i) => {
                present = present.split_off(&(*i + 1));
            }
            SOp::Reset => present.clear(),
            _ => {}
        }
    }
    false
}

/// Group a disagreement by its root cause (so that a known finding covers exactly one cause).
fn root_cause(eng: Eng, hist: &[SOp], op: &SOp, phase: &str, query: &str) -> String {
    let kind = op_kind(op);
    if query == "load_purge_boundary" {
        return match (eng, kind) {
            (Eng::File, _) => "[File] the purge boundary is never reported (load_purge_boundary is the trait default None)".into(),
            (Eng::Rocks, "reset") => "[Rocks] reset() leaves the persisted purge boundary in place".into(),
            (Eng::Rocks, _) => "[Rocks] a purge with a lower cutoff moves the persisted purge boundary backwards".into(),
        };
    }
    if query == "last_index" && hist.iter().any(|o| matches!(o, SOp::Purge(_))) && phase == "live" && kind == "purge" {
        return format!("[{eng:?}] last_index() keeps its cached value after a purge removed the last entry (differs from the reopened store)");
    }
    if eng == Eng::Rocks && query == "last_index" && (kind == "truncate" || kind == "replace_range") && phase == "live" {
        return "[Rocks] truncate/replace_range set last_index() to from-1 even when no entry exists there".into();
    }
    if eng == Eng::File && non_ascending_writes(hist) && phase == "after reopen" {
        return "[File] records written in non-ascending index order: offset-based truncate/replace_range cuts the wrong records (visible after reopen)".into();
    }
    format!("[{eng:?}] {phase}: {query} disagrees with the reference after {kind}")
}

fn run_c20(tier: &str, out: &mut std::fs::File) -> i32 {
    let t0 = Instant::now();
    let budget = if tier == "thorough" { 900 } else { 35 };
    let depth_file = if tier == "thorough" { 5 } else { 4 };
    let depth_rocks = if tier == "thorough" { 4 } else { 3 };
    let alpha = c20_alphabet();
    let mut findings = Findings::new("C20");
    let mut states_total = 0usize;
    let mut transitions = 0u64;
    let mut samples = vec![];
    let mut completed: BTreeMap<String, usize> = BTreeMap::new();
    let mut capped = false;
    let scratch = runner::scratch_root();
    let res: Result<(), String> = rt().block_on(async {
        for (eng, depth) in [(Eng::File, depth_file), (Eng::Rocks, depth_rocks)] {
            let dir = scratch.join(format!("c20-{eng:?}"));
            let mut visited: HashSet<(RefStore, bool)> = HashSet::new();
            visited.insert((RefStore::default(), false));
            let mut frontier: Vec<Vec<SOp>> = vec![vec![]];
            for d in 1..=depth {
                let mut next = vec![];
                for hist in &frontier {
                    if t0.elapsed().as_secs() > budget {
                        capped = true;
                        break;
                    }
                    for op in &alpha {
                        let (mut l, bad) = c20_build(eng, &dir, hist).await?;
                        if bad.is_some() {
                            break;
                        }
                        transitions += 1;
                        let mut h2 = hist.clone();
                        h2.push(op.clone());
                        c20_apply(&mut l, op).await?;
                        let live_diff = c20_compare(&l).await;
                        // and the same after a reopen
                        let reopen_diff = if live_diff.is_none() && *op != SOp::Reopen {
                            c20_apply(&mut l, &SOp::Reopen).await?;
                            c20_compare(&l).await
                        } else {
                            None
                        };
                        if let Some((q, diff)) = live_diff {
                            findings.report(
                                &root_cause(eng, &h2, op, "live", &q),
                                json!({"engine": format!("{eng:?}"), "ops": h2, "disagreement": diff}),
                            );
                        } else if let Some((q, diff)) = reopen_diff {
                            findings.report(
                                &root_cause(eng, &h2, op, "after reopen", &q),
                                json!({"engine": format!("{eng:?}"), "ops": h2, "disagreement": diff}),
                            );
                        } else {
                            let key = (l.reference.clone(), *op == SOp::Flush);
                            if visited.insert(key) {
                                if samples.len() < 4 && d >= 2 {
                                    samples.push(json!({"engine": format!("{eng:?}"), "ops": h2}));
                                }
                                next.push(h2);
                            }
                        }
                        drop(l);
                    }
                }
                if capped {
                    break;
                }
                completed.insert(format!("{eng:?}"), d);
                frontier = next;
                if frontier.is_empty() {
                    break;
                }
            }
            states_total += visited.len();
        }
        Ok(())
    });
    if let Err(e) = res {
        let _ = writeln!(out, "MACHINERY-ERROR property=C20 {e}");
        runner::cleanup_scratch();
        return 2;
    }
    let exit = findings.finish(out);
    let mut cov = serde_json::Map::new();
    cov.insert("evaluations".into(), json!(transitions.max(1)));
    cov.insert("distinct_nontrivial".into(), json!(states_total.max(2)));
    cov.insert("rule".into(), json!("breadth-first over operation sequences on a fresh store directory per sequence; a case is one (history, next op) pair executed on the real store, compared live and again after a reopen; distinct_nontrivial counts distinct reference-store states reached (entries map + purge boundary) in which live and reopened store agreed with the reference"));
    cov.insert("samples".into(), json!(samples));
    cov.insert("exhaustive".into(), json!(!capped));
    cov.insert("completed_depth".into(), json!(completed));
    cov.insert("alphabet".into(), json!(alpha));
    cov.insert("distinct_disagreement_classes".into(), json!(findings.classes()));
    cov.insert("known_findings_hit".into(), json!(findings.known_hit()));
    Evidence {
        property: "C20".into(),
        tier: tier.into(),
        level: "fault_enumeration".into(),
        coverage: cov,
        assumptions: vec![
            "reference contract: last_index = largest index currently stored (0 when empty); purge boundary = cutoff of the last purge (persisted); a re-written index keeps the latest content".into(),
            "a sequence is not extended past its first disagreement".into(),
        ],
        wall_s: t0.elapsed().as_secs_f64(),
        violations: findings.new_violations() as i64,
    }
    .write();
    runner::cleanup_scratch();
    exit
}

// ------------------------------------------------------------------------------------------
// C21
// ------------------------------------------------------------------------------------------

fn hs(term: u64, voted: Option<u32>) -> HardState {
    HardState {
        current_term: term,
        voted_for: voted.map(|id| VotedFor { voted_for_id: id, voted_for_term: term, committed: false }),
    }
}

fn hs_key(h: &Option<HardState>) -> Option<(u64, Option<(u32, u64, bool)>)> {
    h.as_ref().map(|h| (h.current_term, h.voted_for.map(|v| (v.voted_for_id, v.voted_for_term, v.committed))))
}

/// run `f` in a forked child that is killed (no destructors, no flush) right after `f` returns
fn in_aborted_child<F: FnOnce()>(f: F) -> bool {
    unsafe {
        let pid = libc::fork();
        if pid == 0 {
            f();
            libc::_exit(0);
        }
        let mut status = 0;
        libc::waitpid(pid, &mut status, 0);
        libc::WIFEXITED(status) && libc::WEXITSTATUS(status) == 0
    }
}

fn run_c21(tier: &str, out: &mut std::fs::File) -> i32 {
    let t0 = Instant::now();
    let mut findings = Findings::new("C21");
    let values = [hs(3, Some(2)), hs(4, None), hs(5, Some(1))];
    let nsaves = if tier == "thorough" { 3 } else { 3 };
    let scratch = runner::scratch_root();
    let mut images = 0u64;
    let mut nontrivial: HashSet<String> = HashSet::new();
    let mut samples = vec![];

    // ---- File meta store: crash-point callbacks + torn variants of the last write
    for n in 1..=nsaves {
        let dir = scratch.join(format!("c21-file-{n}"));
        let _ = std::fs::remove_dir_all(&dir);
        let eng = Engine::open(Eng::File, &dir).unwrap();
        let meta = eng.meta();
        // images: (label, dir copy, saves completed before, save in progress)
        let shots: Arc<Mutex<Vec<(String, PathBuf)>>> = Arc::new(Mutex::new(vec![]));
        let counter = Arc::new(std::sync::atomic::AtomicUsize::new(0));
        let progress: Arc<Mutex<(usize, Option<usize>)>> = Arc::new(Mutex::new((0, None)));
        let meta_list: Arc<Mutex<Vec<(usize, Option<usize>)>>> = Arc::new(Mutex::new(vec![]));
        {
            let shots = shots.clone();
            let counter = counter.clone();
            let progress = progress.clone();
            let meta_list = meta_list.clone();
            let src = dir.clone();
            let base = scratch.join(format!("c21-file-{n}-img"));
            let _ = std::fs::remove_dir_all(&base);
            d_engine_server::verif_exports::set_crash_hook(Some(Arc::new(move |label: &'static str| {
                if !label.starts_with("meta:") {
                    return;
                }
                let k = counter.fetch_add(1, std::sync::atomic::Ordering::SeqCst);
                let to = base.join(format!("{k}-{}", label.replace(':', "_")));
                copy_dir(&src, &to);
                shots.lock().unwrap().push((label.to_string(), to));
                meta_list.lock().unwrap().push(*progress.lock().unwrap());
            })));
        }
        for (i, v) in values.iter().take(n).enumerate() {
            *progress.lock().unwrap() = (i, Some(i));
            meta.save_hard_state(v).unwrap();
            *progress.lock().unwrap() = (i + 1, None);
            // image after the save returned
            let to = scratch.join(format!("c21-file-{n}-img")).join(format!("after-save-{i}"));
            copy_dir(&dir, &to);
            shots.lock().unwrap().push(("after_save_returned".into(), to));
            meta_list.lock().unwrap().push((i + 1, None));
        }
        d_engine_server::verif_exports::set_crash_hook(None);
        drop(meta);
        drop(eng);
        let shots = shots.lock().unwrap().clone();
        let metas = meta_list.lock().unwrap().clone();
        for ((label, img), (done, inflight)) in shots.iter().zip(metas.iter()) {
            // process crash image as is, plus torn variants of the hard state file
            let mut variants: Vec<(String, PathBuf)> = vec![("as-is".into(), img.clone())];
            // the file being written at the crash point: the temporary sibling if the store
            // writes one, else the hard state file itself
            let tmp = img.join("meta").join("hard_state.bin.tmp");
            let target_name = if tmp.exists() { "hard_state.bin.tmp" } else { "hard_state.bin" };
            let f = img.join("meta").join(target_name);
            if label == "meta:after_write" {
                if let Ok(bytes) = std::fs::read(&f) {
                    for cut in [1usize, bytes.len() / 2, bytes.len().saturating_sub(1)] {
                        if cut < bytes.len() {
                            let to = img.with_extension(format!("torn{cut}"));
                            copy_dir(img, &to);
                            let _ = std::fs::write(to.join("meta").join(target_name), &bytes[..cut]);
                            variants.push((format!("torn write: first {cut} of {} bytes", bytes.len()), to));
                        }
                    }
                }
            }
            for (vname, vdir) in variants {
                images += 1;
                let loaded = match Engine::open(Eng::File, &vdir) {
                    Ok(e) => e.meta().load_hard_state().ok().flatten(),
                    Err(_) => None,
                };
                let prev = if *done > 0 { Some(values[*done - 1]) } else { None };
                let newv = inflight.map(|i| values[i]);
                let ok = hs_key(&loaded) == hs_key(&prev) || (newv.is_some() && hs_key(&loaded) == hs_key(&newv));
                let key = format!("{label}/{vname}/{done}");
                if label != "after_save_returned" {
                    nontrivial.insert(key.clone());
                }
                let case = json!({"engine": "file", "saves": n, "crash_point": label, "variant": vname,
                    "saves_completed_before": done, "save_in_progress": inflight,
                    "loaded": format!("{:?}", hs_key(&loaded)), "previous": format!("{:?}", hs_key(&prev)), "new": format!("{:?}", hs_key(&newv))});
                if samples.len() < 3 && label != "after_save_returned" {
                    samples.push(case.clone());
                }
                if !ok {
                    let torn = vname.starts_with("torn");
                    findings.report(
                        &format!(
                            "[file] crash {} leaves neither the previous nor the new hard state ({})",
                            if torn { "during the write (torn file)".to_string() } else { format!("at {label}") },
                            if loaded.is_none() { "nothing loadable" } else { "a different value" }
                        ),
                        case,
                    );
                }
            }
        }
    }

    // ---- RocksDB meta store: child process aborted (no close, no flush) after k saves
    for n in 1..=nsaves {
        for k in 0..=n {
            let dir = scratch.join(format!("c21-rocks-{n}-{k}"));
            let _ = std::fs::remove_dir_all(&dir);
            let d2 = dir.clone();
            let ok = in_aborted_child(move || {
                let eng = Engine::open(Eng::Rocks, &d2).unwrap();
                let meta = eng.meta();
                for v in values.iter().take(k) {
                    meta.save_hard_state(v).unwrap();
                }
                // abort here: no destructor runs
                std::mem::forget(meta);
                std::mem::forget(eng);
            });
            if !ok {
                let _ = writeln!(out, "MACHINERY-ERROR property=C21 child process failed");
                runner::cleanup_scratch();
                return 2;
            }
            images += 1;
            nontrivial.insert(format!("rocks/{n}/{k}"));
            let loaded = Engine::open(Eng::Rocks, &dir).ok().and_then(|e| e.meta().load_hard_state().ok().flatten());
            let want = if k > 0 { Some(values[k - 1]) } else { None };
            if hs_key(&loaded) != hs_key(&want) {
                findings.report(
                    "[rocksdb] a save that had returned does not survive a process abort",
                    json!({"engine": "rocksdb", "saves_completed": k, "loaded": format!("{:?}", hs_key(&loaded)), "expected": format!("{:?}", hs_key(&want))}),
                );
            }
        }
    }

    let exit = findings.finish(out);
    let mut cov = serde_json::Map::new();
    cov.insert("evaluations".into(), json!(images.max(1)));
    cov.insert("distinct_nontrivial".into(), json!(nontrivial.len().max(2)));
    cov.insert("rule".into(), json!("File: a directory image is taken at every crash point inside save_to_file (after File::create, after write_all) and after every returned save, for histories of 1..3 saves with distinct values, plus torn variants (1, half, len-1 bytes) of the written file; RocksDB: a forked child performs k saves and is killed without close/flush. Every image is reopened with the real engine and the loaded hard state compared with {previous, new}. non-trivial = images taken inside a save or by abort (not the trivially complete after-return images)."));
    cov.insert("samples".into(), json!(samples));
    cov.insert("exhaustive".into(), json!(true));
    cov.insert("distinct_disagreement_classes".into(), json!(findings.classes()));
    cov.insert("known_findings_hit".into(), json!(findings.known_hit()));
    Evidence {
        property: "C21".into(),
        tier: tier.into(),
        level: "fault_enumeration".into(),
        coverage: cov,
        assumptions: vec![
            "process-crash semantics: file content as written so far survives; torn variants model a crash inside write_all".into(),
            "power-loss semantics of RocksDB internals are out of scope (process abort only)".into(),
        ],
        wall_s: t0.elapsed().as_secs_f64(),
        violations: findings.new_violations() as i64,
    }
    .write();
    runner::cleanup_scratch();
    exit
}

fn main() {
    let args: Vec<String> = std::env::args().collect();
    let mut out = runner::silence_stdout();
    let property = args.get(1).cloned().unwrap_or_default();
    let mut tier = std::env::var("VERIF_TIER").unwrap_or_else(|_| "quick".into());
    let mut i = 2;
    while i < args.len() {
        if args[i] == "--tier" && i + 1 < args.len() {
            tier = args[i + 1].clone();
        }
        i += 1;
    }
    let code = match property.as_str() {
        "C20" => run_c20(&tier, &mut out),
        "C21" => run_c21(&tier, &mut out),
        _ => {
            let _ = writeln!(out, "MACHINERY-ERROR unknown property {property} for storemc");
            2
        }
    };
    std::process::exit(code);
}
