//! C33 (engine part): what a leader needs in order to serve peers below its purge boundary must
//! survive a restart. After a snapshot was created (and the log purged up to it), a node can only
//! help a lagging peer by sending that snapshot, for which `Leader::send_heartbeat_or_batch`
//! consults `StateMachine::snapshot_metadata()` and the snapshot file named after it.
//!
//! Enumerates, on the real engines behind the real `DefaultStateMachineHandler`, every sequence
//! of {apply, create snapshot, graceful restart, crash restart} up to a bound and checks after
//! every restart that the latest snapshot's metadata is still known and its file still loads.

use std::path::Path;
use std::sync::Arc;
use std::time::Instant;

use d_engine_core::Command;
use d_engine_core::StateMachine;
use d_engine_core::StateMachineHandler;
use d_engine_proto::server::storage::SnapshotMetadata;
use futures::StreamExt;
use serde::Deserialize;
use serde::Serialize;
use serde_json::json;

use crate::c15::copy_dir;
use crate::evidence::Evidence;
use crate::gridkit::Findings;
use crate::realsm::WrapSm;
use crate::realsm::handler;
use crate::realsm::snapshot_config;
use crate::runner;
use crate::smkit::*;

#[derive(Clone, Debug, PartialEq, Eq, Hash, Serialize, Deserialize)]
pub enum POp {
    Apply,
    Snapshot,
    RestartGraceful,
    RestartCrash,
}

fn sequences(depth: usize) -> Vec<Vec<POp>> {
    let alpha = [POp::Apply, POp::Snapshot, POp::RestartGraceful, POp::RestartCrash];
    let mut out = vec![];
    let mut level: Vec<Vec<POp>> = vec![vec![POp::Apply]];
    for _ in 1..depth {
        let mut next = vec![];
        for h in &level {
            for op in &alpha {
                if *op == POp::Snapshot && h.last() == Some(&POp::Snapshot) {
                    continue;
                }
                let mut q = h.clone();
                q.push(op.clone());
                next.push(q);
            }
        }
        out.extend(next.iter().filter(|s| s.contains(&POp::Snapshot) && matches!(s.last(), Some(POp::RestartGraceful | POp::RestartCrash))).cloned());
        level = next;
    }
    out
}

async fn run_sequence(engine: Engine, root: &Path, ops: &[POp]) -> Result<Vec<(String, String)>, String> {
    let en = engine.name();
    let mut dir = root.join("sm0");
    let snapdir = root.join("snap");
    let _ = std::fs::remove_dir_all(root);
    let _ = std::fs::create_dir_all(root);
    let mut generation = 0;
    let mut sm = WrapSm::new(open(engine, &dir).await?, engine);
    let mut h = handler(1, sm.clone(), snapshot_config(&snapdir, 1, 1 << 20));
    let mut next = 1u64;
    let mut latest: Option<SnapshotMetadata> = None;
    let mut out = vec![];
    for (i, op) in ops.iter().enumerate() {
        match op {
            POp::Apply => {
                let c = Command::Insert { key: b(b"k"), value: bytes::Bytes::from(format!("v{next}")), ttl_secs: None };
                sm.apply_chunk(&entries(std::slice::from_ref(&c), next, 1)).await.map_err(|e| format!("apply: {e:?}"))?;
                next += 1;
            }
            POp::Snapshot => {
                let (meta, _p) = h.create_snapshot().await.map_err(|e| format!("create_snapshot: {e:?}"))?;
                latest = Some(meta);
            }
            POp::RestartGraceful | POp::RestartCrash => {
                if *op == POp::RestartCrash {
                    generation += 1;
                    let img = root.join(format!("sm{generation}"));
                    copy_dir(&dir, &img);
                    let _ = sm.stop();
                    drop(h);
                    drop(sm);
                    let _ = std::fs::remove_dir_all(&dir);
                    dir = img;
                } else {
                    sm.close_storage();
                    let _ = sm.stop();
                    drop(h);
                    drop(sm);
                }
                sm = WrapSm::new(open(engine, &dir).await?, engine);
                h = handler(1, sm.clone(), snapshot_config(&snapdir, 1, 1 << 20));
                if let Some(want) = &latest {
                    let how = if *op == POp::RestartCrash { "a crash restart" } else { "a graceful restart" };
                    match sm.snapshot_metadata() {
                        None => out.push((
                            format!("[{en}] after {how} the node no longer knows its latest snapshot (snapshot_metadata() is None): a leader in this state sends peers below its purge boundary neither entries nor a snapshot"),
                            format!("ops {:?} (restart at position {i}); snapshot last_included {:?}", ops, want.last_included),
                        )),
                        Some(m) if m.last_included != want.last_included => out.push((
                            format!("[{en}] after {how} the node reports an older snapshot than the latest one it created"),
                            format!("ops {:?}; reported {:?}, created {:?}", ops, m.last_included, want.last_included),
                        )),
                        Some(m) => {
                            // the file the leader would stream must still load
                            match h.load_snapshot_data(m.clone()).await {
                                Ok(mut s) => {
                                    let mut n = 0;
                                    while let Some(c) = s.next().await {
                                        if c.is_err() {
                                            out.push((format!("[{en}] after {how} the latest snapshot cannot be streamed"), format!("{:?}", c.err())));
                                            break;
                                        }
                                        n += 1;
                                    }
                                    if n == 0 {
                                        out.push((format!("[{en}] after {how} the latest snapshot streams zero chunks"), format!("ops {:?}", ops)));
                                    }
                                }
                                Err(e) => out.push((format!("[{en}] after {how} the latest snapshot's file cannot be loaded"), format!("{e:?}"))),
                            }
                        }
                    }
                }
            }
        }
    }
    let _ = sm.stop();
    drop(h);
    drop(sm);
    let _ = std::fs::remove_dir_all(root);
    Ok(out)
}

pub fn engine_part(tier: &str, findings: &mut Findings, out: &mut std::fs::File) -> Result<(u64, u64), i32> {
    use std::io::Write;
    let depth = if tier == "thorough" { 6 } else { 5 };
    let root = runner::scratch_root().join("c33");
    let rt = tokio::runtime::Builder::new_current_thread().enable_all().build().unwrap();
    let mut n = 0u64;
    let mut restarts = 0u64;
    for engine in [Engine::File, Engine::Rocks] {
        let d = if engine == Engine::Rocks { depth - 1 } else { depth };
        for s in sequences(d) {
            n += 1;
            restarts += s.iter().filter(|o| matches!(o, POp::RestartGraceful | POp::RestartCrash)).count() as u64;
            match rt.block_on(run_sequence(engine, &root, &s)) {
                Ok(v) => {
                    for (class, detail) in v {
                        findings.report(&class, json!({"engine": engine.name(), "ops": s, "detail": detail}));
                    }
                }
                Err(e) => {
                    let _ = writeln!(out, "MACHINERY-ERROR property=C33 {engine:?} {s:?}: {e}");
                    return Err(2);
                }
            }
        }
    }
    Ok((n, restarts))
}

pub fn run(tier: &str, out: &mut std::fs::File) -> i32 {
    let t0 = Instant::now();
    let mut findings = Findings::new("C33");
    let (n, restarts) = match engine_part(tier, &mut findings, out) {
        Ok(x) => x,
        Err(code) => {
            runner::cleanup_scratch();
            return code;
        }
    };
    let exit = findings.finish(out);
    let mut cov = serde_json::Map::new();
    cov.insert("states".into(), json!(n.max(1)));
    cov.insert("transitions".into(), json!(restarts.max(1)));
    cov.insert("traces_validated_against_impl".into(), json!(n));
    cov.insert("samples".into(), json!([{"engine": "file", "ops": [POp::Apply, POp::Snapshot, POp::RestartGraceful]}]));
    cov.insert("exhaustive".into(), json!(true));
    cov.insert("distinct_disagreement_classes".into(), json!(findings.classes()));
    cov.insert("known_findings_hit".into(), json!(findings.known_hit()));
    cov.insert("explanation".into(), json!("Engine part of C33: every sequence (starting with an apply, containing a snapshot, ending with a restart; length <= 5 quick / 6 thorough, RocksDB one shorter) over {apply, create_snapshot through the real handler, graceful restart, crash restart (directory image)} on the real File and RocksDB state machines; after every restart the latest snapshot's metadata must still be known to the state machine and its archive must still stream through load_snapshot_data - that is what the leader's replication path consults for peers below its purge boundary. The purge-vs-commit/snapshot ordering inside the Raft roles (purge only what is committed and covered by a held snapshot) is not explored by this check; see DESIGN.md section 4 C33 for the stated limits."));
    Evidence {
        property: "C33".into(),
        tier: tier.into(),
        level: "model_checking".into(),
        coverage: cov,
        assumptions: vec![
            "only the restart-survival half of the property is decided here (leader restarts / snapshot availability); purge timing relative to commit is covered only indirectly by C05's 'no committed entry discarded except below the purge boundary' oracle".into(),
        ],
        wall_s: t0.elapsed().as_secs_f64(),
        violations: findings.new_violations() as i64,
    }
    .write();
    runner::cleanup_scratch();
    exit
}


/// C33 as registered: the engine part above plus the cluster exploration (snapshots, purges, a
/// peer behind the purge boundary, leader restart, recovery closure). The cluster run writes the
/// evidence file; the engine part's numbers are merged into it.
pub fn run_both(tier: &str, out: &mut std::fs::File) -> i32 {
    let mut findings = Findings::new("C33");
    let (n, restarts) = match engine_part(tier, &mut findings, out) {
        Ok(x) => x,
        Err(code) => {
            runner::cleanup_scratch();
            return code;
        }
    };
    let engine_exit = findings.finish(out);
    let Some(check) = crate::specs::cluster_check("C33", tier) else { return 2 };
    let cluster_exit = runner::run_check("C33", tier, &check.runs, check.budget_s, &["engine part: see coverage.engine_part"], out);
    // merge the engine part into the evidence the cluster run wrote
    let p = crate::known::verif_root().join("evidence").join("C33.json");
    if let Ok(text) = std::fs::read_to_string(&p) {
        if let Ok(mut v) = serde_json::from_str::<serde_json::Value>(&text) {
            v["coverage"]["engine_part"] = json!({
                "sequences": n, "restarts_checked": restarts,
                "what": "every sequence over {apply, create_snapshot, graceful restart, crash restart} (starting with an apply, containing a snapshot, ending with a restart; length <= 5 quick / 6 thorough) on the real File and RocksDB state machines behind the real handler: after every restart the latest snapshot's metadata is still known and its archive still streams",
                "disagreement_classes": findings.classes(),
            });
            if engine_exit != 0 {
                v["violations"] = json!(v["violations"].as_i64().unwrap_or(0) + findings.new_violations() as i64);
            }
            let _ = std::fs::write(&p, serde_json::to_string_pretty(&v).unwrap());
        }
    }
    if cluster_exit == 2 {
        return 2;
    }
    engine_exit.max(cluster_exit)
}
