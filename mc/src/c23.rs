//! C23: TTL — keys expire when due, overwrites/deletes cancel old TTLs, TTL state survives
//! restart and snapshot install. Exhaustive enumeration of operation sequences on the real File
//! and RocksDB state machines with a real TtlLease under a harness-owned (frozen) wall clock.

use std::collections::BTreeMap;
use std::path::Path;
use std::path::PathBuf;
use std::sync::Arc;
use std::sync::Mutex;
use std::time::Instant;

use bytes::Bytes;
use d_engine_core::Command;
use d_engine_proto::common::LogId;
use serde::Deserialize;
use serde::Serialize;
use serde_json::json;

use crate::c15::copy_dir;
use crate::evidence::Evidence;
use crate::gridkit::Findings;
use crate::runner;
use crate::smkit::*;
use crate::vclock;

#[derive(Clone, Debug, PartialEq, Eq, Hash, Serialize, Deserialize)]
pub enum TOp {
    PutTtl(u64),
    Put,
    /// CAS whose expected value is the key's current value (succeeds iff the key exists)
    CasCurrent,
    /// CAS expecting 'absent'
    CasAbsent,
    Del,
    Advance(u64),
    Cleanup,
    /// graceful stop + reopen
    Restart,
    /// process crash (directory image, no stop) + reopen
    Crash,
    /// generate a snapshot here, install it on a fresh instance, continue there
    Snapshot,
}

const KEY: &[u8] = b"k";

#[derive(Clone, Debug, Default, PartialEq)]
struct RefT {
    value: Option<Vec<u8>>,
    deadline: Option<u64>,
    now: u64,
    /// operation number of the write that set the current TTL
    ttl_op: Option<usize>,
    /// operation number of the TTL write whose expiry the last cleanup enforced
    enforced_ttl_op: Option<usize>,
    last_crash_op: Option<usize>,
    /// operation number of the write that produced the current value
    value_op: Option<usize>,
}

impl RefT {
    /// the TTL has elapsed but no cleanup has run since: the statement does not say whether
    /// the key is still readable
    fn window(&self) -> bool {
        self.value.is_some() && self.deadline.map(|d| d <= self.now).unwrap_or(false)
    }
}

struct Live {
    o: Option<Opened>,
    dir: PathBuf,
    engine: Engine,
    next_index: u64,
    seq: u64,
    scratch: PathBuf,
}

impl Live {
    async fn open_at(engine: Engine, scratch: &Path, seq: u64) -> Result<Live, String> {
        let dir = scratch.join(format!("sm{seq}"));
        let _ = std::fs::remove_dir_all(&dir);
        let o = open(engine, &dir).await?;
        Ok(Live { o: Some(o), dir, engine, next_index: 1, seq, scratch: scratch.to_path_buf() })
    }
    fn sm(&self) -> &Opened {
        self.o.as_ref().unwrap()
    }
    async fn apply(&mut self, c: Command) -> Result<bool, String> {
        let idx = self.next_index;
        self.next_index += 1;
        let r = self
            .sm()
            .sm
            .apply_chunk(&entries(std::slice::from_ref(&c), idx, 1))
            .await
            .map_err(|e| format!("apply: {e:?}"))?;
        Ok(r.first().map(|x| x.succeeded).unwrap_or(false))
    }
    fn fresh_dir(&mut self, tag: &str) -> PathBuf {
        self.seq += 1;
        let p = self.scratch.join(format!("{tag}{}", self.seq));
        let _ = std::fs::remove_dir_all(&p);
        p
    }
}

/// Executes `op` on the live engine and the reference; returns a disagreement (class, detail).
async fn step(l: &mut Live, r: &mut RefT, op: &TOp, opno: usize) -> Result<Option<(String, String)>, String> {
    let val = format!("v{opno}").into_bytes();
    let en = l.engine.name();
    match op {
        TOp::PutTtl(t) => {
            l.apply(Command::Insert { key: b(KEY), value: Bytes::from(val.clone()), ttl_secs: Some(*t) }).await?;
            r.value = Some(val);
            r.deadline = Some(r.now + *t);
            r.ttl_op = Some(opno);
            r.value_op = Some(opno);
        }
        TOp::Put => {
            l.apply(Command::Insert { key: b(KEY), value: Bytes::from(val.clone()), ttl_secs: None }).await?;
            r.value = Some(val);
            r.deadline = None;
            r.value_op = Some(opno);
        }
        TOp::CasCurrent => {
            let expected = r.value.clone();
            let ok = l
                .apply(Command::CompareAndSwap {
                    key: b(KEY),
                    expected: expected.clone().map(Bytes::from),
                    value: Bytes::from(val.clone()),
                })
                .await?;
            // expected == current always matches (absent matches absent)
            if !ok {
                return Ok(Some((
                    format!("[{en}] a CAS expecting the key's current value failed"),
                    format!("expected {:?}", expected),
                )));
            }
            r.value = Some(val);
            r.deadline = None;
            r.value_op = Some(opno);
        }
        TOp::CasAbsent => {
            let ok = l.apply(Command::CompareAndSwap { key: b(KEY), expected: None, value: Bytes::from(val.clone()) }).await?;
            let want = r.value.is_none();
            if ok != want {
                return Ok(Some((
                    format!("[{en}] CAS expecting 'absent' {} although the key is {}", if ok { "succeeded" } else { "failed" }, if want { "absent" } else { "present" }),
                    format!("reference value {:?}", r.value),
                )));
            }
            if ok {
                r.value = Some(val);
                r.deadline = None;
                r.value_op = Some(opno);
            }
        }
        TOp::Del => {
            l.apply(Command::Delete { key: b(KEY) }).await?;
            r.value = None;
            r.deadline = None;
        }
        TOp::Advance(d) => {
            r.now += *d;
            vclock::freeze(r.now);
        }
        TOp::Cleanup => {
            l.sm().sm.lease_background_cleanup().await.map_err(|e| format!("cleanup: {e:?}"))?;
            if r.window() {
                r.value = None;
                r.deadline = None;
                r.enforced_ttl_op = r.ttl_op;
            }
        }
        TOp::Restart => {
            let o = l.o.take().unwrap();
            // EmbeddedEngine::stop order: close_storage, (raft loop ends), stop, drop
            o.sm.close_storage();
            let _ = o.sm.stop();
            drop(o);
            l.o = Some(open(l.engine, &l.dir).await?);
        }
        TOp::Crash => {
            r.last_crash_op = Some(opno);
            let img = l.fresh_dir("crash");
            copy_dir(&l.dir, &img);
            let o = l.o.take().unwrap();
            let _ = o.sm.stop();
            drop(o);
            let _ = std::fs::remove_dir_all(&l.dir);
            l.dir = img;
            l.o = Some(open(l.engine, &l.dir).await?);
        }
        TOp::Snapshot => {
            let snapdir = l.fresh_dir("snap");
            let last = l.sm().sm.last_applied();
            let li = LogId { index: last.index, term: last.term.max(1) };
            let checksum = l
                .sm()
                .sm
                .generate_snapshot_data(snapdir.clone(), li)
                .await
                .map_err(|e| format!("generate_snapshot_data: {e:?}"))?;
            let meta = d_engine_proto::server::storage::SnapshotMetadata { last_included: Some(li), checksum };
            // a fresh follower instance installs it
            let newdir = l.fresh_dir("sm");
            let o2 = open(l.engine, &newdir).await?;
            o2.sm.apply_snapshot_from_file(&meta, snapdir.clone()).await.map_err(|e| format!("apply_snapshot_from_file: {e:?}"))?;
            let old = l.o.take().unwrap();
            let _ = old.sm.stop();
            drop(old);
            let _ = std::fs::remove_dir_all(&l.dir);
            let _ = std::fs::remove_dir_all(&snapdir);
            l.dir = newdir;
            l.o = Some(o2);
        }
    }
    // ---- observable: get(k)
    if !r.window() {
        let got = l.sm().sm.get(KEY).map_err(|e| format!("get: {e:?}"))?.map(|v| v.to_vec());
        if got != r.value {
            let what = match (&got, &r.value) {
                (None, Some(_)) if r.deadline.is_some() => "a key with an unexpired TTL is not readable",
                (None, Some(_))
                    if matches!((r.ttl_op, r.value_op, r.last_crash_op), (Some(t), Some(v), Some(c)) if t < v && v < c) =>
                {
                    "a key WITHOUT a TTL was removed after A PROCESS CRASH brought back the TTL of an earlier write of that key"
                }
                (None, Some(_)) => "a key WITHOUT a TTL was removed (an earlier TTL of the same key was not cancelled, or data was lost)",
                (Some(_), None)
                    if matches!((r.enforced_ttl_op, r.last_crash_op), (Some(t), Some(c)) if t < c) =>
                {
                    "a key whose TTL was registered BEFORE A PROCESS CRASH is still readable after the TTL elapsed and expiry cleanup ran"
                }
                (Some(_), None) => "a key is readable although it was deleted or its TTL elapsed and expiry cleanup ran",
                _ => "a key holds a different value than the last write",
            };
            return Ok(Some((
                format!("[{en}] {what}"),
                format!("get = {:?}, reference {:?} (deadline {:?}, now {})", got.map(|v| String::from_utf8_lossy(&v).to_string()), r.value.as_ref().map(|v| String::from_utf8_lossy(v).to_string()), r.deadline, r.now),
            )));
        }
    }
    Ok(None)
}

fn alphabet(thorough: bool) -> Vec<TOp> {
    let mut v = vec![
        TOp::PutTtl(10),
        TOp::Put,
        TOp::Del,
        TOp::CasCurrent,
        TOp::CasAbsent,
        TOp::Advance(5),
        TOp::Advance(10),
        TOp::Cleanup,
        TOp::Restart,
        TOp::Snapshot,
        TOp::Crash,
    ];
    if thorough {
        v.insert(1, TOp::PutTtl(30));
        v.push(TOp::Advance(25));
    }
    v
}

/// pruning of sequences that add nothing: the first operation writes the key; no two clean-ups,
/// restarts, crashes or snapshots in a row; bounded number of heavy operations
fn allowed(hist: &[TOp], op: &TOp) -> bool {
    if hist.is_empty() {
        return matches!(op, TOp::PutTtl(_) | TOp::Put);
    }
    let last = hist.last().unwrap();
    let heavy = |o: &TOp| matches!(o, TOp::Restart | TOp::Crash | TOp::Snapshot);
    if heavy(op) && (heavy(last) && op == last) {
        return false;
    }
    if *op == TOp::Cleanup && *last == TOp::Cleanup {
        return false;
    }
    if heavy(op) && hist.iter().filter(|o| heavy(o)).count() >= 2 {
        return false;
    }
    if matches!(op, TOp::Advance(_)) && hist.iter().filter(|o| matches!(o, TOp::Advance(_))).count() >= 3 {
        return false;
    }
    true
}

async fn run_sequence(engine: Engine, scratch: &Path, seq_no: u64, ops: &[TOp]) -> Result<Option<(String, String, usize)>, String> {
    vclock::freeze(0);
    let mut l = Live::open_at(engine, scratch, seq_no).await?;
    let mut r = RefT::default();
    let mut res = None;
    for (i, op) in ops.iter().enumerate() {
        if r.window() && matches!(op, TOp::CasCurrent | TOp::CasAbsent) {
            // outcome depends on whether the elapsed key is still visible: not specified
            continue;
        }
        if let Some((c, d)) = step(&mut l, &mut r, op, i).await? {
            res = Some((c, d, i));
            break;
        }
    }
    // closure: let every TTL elapse, run cleanup: keys with a TTL are gone, others stay
    if res.is_none() {
        for (j, op) in [TOp::Advance(1000), TOp::Cleanup].iter().enumerate() {
            if let Some((c, d)) = step(&mut l, &mut r, op, ops.len() + j).await? {
                res = Some((format!("{c} (after waiting for every TTL to elapse and running cleanup)"), d, ops.len() + j));
                break;
            }
        }
    }
    if let Some(o) = l.o.take() {
        let _ = o.sm.stop();
        drop(o);
    }
    let _ = std::fs::remove_dir_all(&l.dir);
    vclock::unfreeze();
    Ok(res)
}

fn sequences(alpha: &[TOp], depth: usize) -> Vec<Vec<TOp>> {
    let mut out = vec![];
    let mut level: Vec<Vec<TOp>> = vec![vec![]];
    for _ in 0..depth {
        let mut next = vec![];
        for h in &level {
            for op in alpha {
                if allowed(h, op) {
                    let mut q = h.clone();
                    q.push(op.clone());
                    next.push(q);
                }
            }
        }
        out.extend(next.iter().cloned());
        level = next;
    }
    out
}

/// Many TTL keys: exactly one of `n` keys has a short TTL; after it elapses a cleanup must
/// remove it, whichever key it is.
async fn many_keys_case(engine: Engine, scratch: &Path, n: usize, short: usize) -> Result<Option<(String, String)>, String> {
    vclock::freeze(0);
    let dir = scratch.join("many");
    let _ = std::fs::remove_dir_all(&dir);
    let o = open(engine, &dir).await?;
    let mut cmds = vec![];
    for i in 0..n {
        cmds.push(Command::Insert {
            key: Bytes::from(format!("key{i:02}")),
            value: b(b"v"),
            ttl_secs: Some(if i == short { 10 } else { 100_000 }),
        });
    }
    o.sm.apply_chunk(&entries(&cmds, 1, 1)).await.map_err(|e| format!("{e:?}"))?;
    vclock::freeze(20);
    o.sm.lease_background_cleanup().await.map_err(|e| format!("{e:?}"))?;
    let k = format!("key{short:02}");
    let got = o.sm.get(k.as_bytes()).map_err(|e| format!("{e:?}"))?;
    let mut res = None;
    if got.is_some() {
        res = Some((
            format!("[{}] with {} keys under TTL, a key whose TTL has elapsed survives expiry cleanup", engine.name(), n),
            format!("{n} keys with TTL, only {k} is due; after cleanup get({k}) = {:?}", got),
        ));
    }
    for i in 0..n {
        if i != short {
            let k = format!("key{i:02}");
            if o.sm.get(k.as_bytes()).map_err(|e| format!("{e:?}"))?.is_none() {
                res = Some((format!("[{}] cleanup removed a key whose TTL has not elapsed", engine.name()), k));
            }
        }
    }
    let _ = o.sm.stop();
    drop(o);
    let _ = std::fs::remove_dir_all(&dir);
    vclock::unfreeze();
    Ok(res)
}

pub fn run(tier: &str, out: &mut std::fs::File) -> i32 {
    use std::io::Write;
    let t0 = Instant::now();
    let thorough = tier == "thorough";
    if let Err(e) = vclock::self_test() {
        let _ = writeln!(out, "MACHINERY-ERROR property=C23 {e}");
        return 2;
    }
    let alpha = alphabet(thorough);
    let depth_file = if thorough { 6 } else { 4 };
    let depth_rocks = if thorough { 5 } else { 3 };
    let budget = std::time::Duration::from_secs(if thorough { 1500 } else { 50 });
    let deadline = t0 + budget;
    let mut items: Vec<(Engine, Vec<TOp>)> = vec![];
    for s in sequences(&alpha, depth_file) {
        items.push((Engine::File, s));
    }
    for s in sequences(&alpha, depth_rocks) {
        items.push((Engine::Rocks, s));
    }
    // shortest first so that the first example of each class is the shortest
    items.sort_by_key(|(e, s)| (s.len(), *e == Engine::Rocks));
    let total = items.len();
    let queue = Arc::new(Mutex::new(std::collections::VecDeque::from(items)));
    let found: Arc<Mutex<Vec<(String, serde_json::Value, usize)>>> = Arc::new(Mutex::new(vec![]));
    let stats: Arc<Mutex<(u64, u64, bool, Vec<String>)>> = Arc::new(Mutex::new((0, 0, false, vec![])));
    let root = runner::scratch_root();
    let mut handles = vec![];
    for w in 0..runner::threads() {
        let queue = queue.clone();
        let found = found.clone();
        let stats = stats.clone();
        let scratch = root.join(format!("c23w{w}"));
        let _ = std::fs::create_dir_all(&scratch);
        handles.push(std::thread::spawn(move || {
            let rt = tokio::runtime::Builder::new_current_thread().enable_all().build().unwrap();
            let mut n = 0u64;
            let mut ops_run = 0u64;
            let mut capped = false;
            let mut errs = vec![];
            loop {
                let item = queue.lock().unwrap().pop_front();
                let Some((engine, seq)) = item else { break };
                if Instant::now() > deadline {
                    capped = true;
                    break;
                }
                n += 1;
                ops_run += seq.len() as u64 + 2;
                match rt.block_on(run_sequence(engine, &scratch, n, &seq)) {
                    Ok(Some((class, detail, at))) => {
                        found.lock().unwrap().push((class, json!({"engine": engine.name(), "ops": seq, "failed_at_op": at, "detail": detail}), seq.len()));
                    }
                    Ok(None) => {}
                    Err(e) => errs.push(format!("{engine:?} {seq:?}: {e}")),
                }
            }
            let mut s = stats.lock().unwrap();
            s.0 += n;
            s.1 += ops_run;
            s.2 |= capped;
            s.3.extend(errs);
        }));
    }
    for h in handles {
        let _ = h.join();
    }
    let (nseq, nops, capped, errs) = {
        let s = stats.lock().unwrap();
        (s.0, s.1, s.2, s.3.clone())
    };
    if !errs.is_empty() {
        let _ = writeln!(out, "MACHINERY-ERROR property=C23 {}", errs[0]);
        runner::cleanup_scratch();
        return 2;
    }
    let mut findings = Findings::new("C23");
    let mut f = std::mem::take(&mut *found.lock().unwrap());
    f.sort_by_key(|(_, _, len)| *len);
    for (class, ex, _) in f {
        findings.report(&class, ex);
    }
    // ---- many keys under TTL
    let mut many = 0u64;
    let rt = tokio::runtime::Builder::new_current_thread().enable_all().build().unwrap();
    let scratch = root.join("c23many");
    let _ = std::fs::create_dir_all(&scratch);
    for engine in [Engine::File, Engine::Rocks] {
        for n in [2usize, 11, 12, 24] {
            for short in 0..n {
                many += 1;
                match rt.block_on(many_keys_case(engine, &scratch, n, short)) {
                    Ok(Some((class, detail))) => findings.report(&class, json!({"engine": engine.name(), "keys": n, "short_ttl_key": short, "detail": detail})),
                    Ok(None) => {}
                    Err(e) => {
                        let _ = writeln!(out, "MACHINERY-ERROR property=C23 many-keys case: {e}");
                        runner::cleanup_scratch();
                        return 2;
                    }
                }
            }
        }
    }
    let exit = findings.finish(out);
    let mut cov = serde_json::Map::new();
    cov.insert("states".into(), json!(nseq.max(1)));
    cov.insert("transitions".into(), json!(nops.max(1)));
    cov.insert("traces_validated_against_impl".into(), json!(nseq));
    let sample: Vec<TOp> = vec![TOp::PutTtl(10), TOp::Put, TOp::Restart, TOp::Advance(10), TOp::Cleanup];
    cov.insert("samples".into(), json!([{"engine": "file", "ops": sample}]));
    cov.insert("exhaustive".into(), json!(!capped));
    cov.insert("sequences_total".into(), json!(total));
    cov.insert("sequences_run".into(), json!(nseq));
    cov.insert("many_keys_cases".into(), json!(many));
    cov.insert("depth".into(), json!({"file": depth_file, "rocksdb": depth_rocks}));
    cov.insert("alphabet".into(), json!(alpha));
    cov.insert("distinct_disagreement_classes".into(), json!(findings.classes()));
    cov.insert("known_findings_hit".into(), json!(findings.known_hit()));
    cov.insert("explanation".into(), json!("Every sequence (up to the stated depth, first operation a write) over {put with TTL, put, delete, CAS on the current value, clock advance, expiry cleanup, graceful restart, process crash + reopen, snapshot generate + install on a fresh instance} is executed on the real File / RocksDB state machine with a real TtlLease; CLOCK_REALTIME is frozen and advanced only by the harness. After every operation get(k) is compared with the reference (not compared while a TTL has elapsed but no cleanup has run yet); every sequence ends with 'advance past every TTL + cleanup'. states = sequences executed, transitions = operations executed. Plus: n keys under TTL of which exactly one is due, for every choice of that key."));
    Evidence {
        property: "C23".into(),
        tier: tier.into(),
        level: "model_checking".into(),
        coverage: cov,
        assumptions: vec![
            "one key; TTLs 10 (30) s, advances 5/10 (25) s; wall clock under harness control through clock_gettime interposition (self-tested at start)".into(),
            "restart = close_storage + stop + drop + reopen + set_lease + start, as EmbeddedEngine does; crash = directory image without stop".into(),
        ],
        wall_s: t0.elapsed().as_secs_f64(),
        violations: findings.new_violations() as i64,
    }
    .write();
    runner::cleanup_scratch();
    exit
}
