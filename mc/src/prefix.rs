//! Scripted prefixes ("start from non-initial states"): a deterministic policy drives a real
//! cluster and records the explorer events it used; the recorded list is the prefix of a run.

use crate::runner;
use crate::simkit::cluster::Cluster;
use crate::simkit::cluster::Event;
use crate::simkit::cluster::LinkId;
use crate::simkit::cluster::NodeView;
use crate::simkit::cluster::Opts;
use crate::simkit::cluster::VoteAns;

pub struct Script {
    rt: tokio::runtime::Runtime,
    cluster: Option<Cluster>,
    pub events: Vec<Event>,
}

impl Script {
    pub fn new(opts: &Opts) -> Script {
        let rt = runner::paused_rt(0);
        let scratch = runner::scratch_root().join("script");
        let _ = std::fs::create_dir_all(&scratch);
        let cluster = rt.block_on(async { Cluster::new(opts.clone(), scratch).await }).expect("script cluster");
        Script { rt, cluster: Some(cluster), events: vec![] }
    }

    pub fn ev(&mut self, e: Event) -> &mut Self {
        let mut c = self.cluster.take().unwrap();
        let r = self.rt.block_on(async {
            let r = crate::simkit::cluster_ext::apply_any(&mut c, &e).await;
            crate::simkit::cluster_ext::check_global(&mut c).await;
            r
        });
        if let Err(err) = r {
            panic!("script event {e:?} failed after {:?}: {err}", self.events);
        }
        self.events.push(e);
        self.cluster = Some(c);
        self
    }

    /// follower -> candidate -> election in which every asked voter answers
    pub fn elect(&mut self, n: u32) -> &mut Self {
        self.ev(Event::Timeout(n));
        self.ev(Event::Timeout(n));
        loop {
            let next = {
                let c = self.cluster.as_ref().unwrap();
                c.election.as_ref().map(|el| el.peers[el.answered.len()])
            };
            match next {
                Some(p) => {
                    self.ev(Event::Vote(p, VoteAns::Deliver));
                }
                None => break,
            }
        }
        self
    }

    /// timed mode: let time pass (Tick) and answer every vote request until some node is leader
    /// and its election is over; returns the leader's id
    pub fn run_until_leader(&mut self) -> Option<u32> {
        for _ in 0..40 {
            let (pending, leader) = {
                let c = self.cluster.as_ref().unwrap();
                let pending = c.election.as_ref().map(|el| el.peers[el.answered.len()]);
                let leader = c
                    .last_views
                    .values()
                    .filter(|v| v.role == crate::simkit::cluster::RoleKind::Leader)
                    .map(|v| v.id)
                    .next();
                (pending, leader)
            };
            match (pending, leader) {
                (Some(p), _) => {
                    self.ev(Event::Vote(p, VoteAns::Deliver));
                }
                (None, Some(l)) => return Some(l),
                (None, None) => {
                    self.ev(Event::Tick);
                }
            }
        }
        None
    }

    /// Deliver queued requests / responses (FIFO per link, links in ascending order) for which
    /// `allow(link, is_response)` holds, until nothing matching is left.
    pub fn drain<F: Fn(&LinkId, bool) -> bool>(&mut self, allow: F) -> &mut Self {
        for _ in 0..200 {
            let pick = {
                let c = self.cluster.as_ref().unwrap();
                let mut found = None;
                for (l, nreq, nresp, dead) in c.links() {
                    let busy = !matches!(c.slots.get(&l.to), Some(crate::simkit::cluster::Slot::Up(_)));
                    if nreq > 0 && !busy && allow(&l, false) {
                        found = Some(Event::Deliver(l, 1));
                        break;
                    }
                    if nresp > 0 && !dead && allow(&l, true) {
                        found = Some(Event::DeliverResp(l));
                        break;
                    }
                }
                found
            };
            match pick {
                Some(e) => {
                    self.ev(e);
                }
                None => return self,
            }
        }
        panic!("drain does not terminate: {:?}", self.events);
    }

    /// Like `drain`, one message at a time, stopping as soon as `stop` holds. Returns whether
    /// the condition was reached.
    pub fn drain_until<F: Fn(&LinkId, bool) -> bool, S: Fn(&Script) -> bool>(&mut self, allow: F, stop: S) -> bool {
        for _ in 0..200 {
            if stop(self) {
                return true;
            }
            let pick = {
                let c = self.cluster.as_ref().unwrap();
                let mut found = None;
                for (l, nreq, nresp, dead) in c.links() {
                    let busy = !matches!(c.slots.get(&l.to), Some(crate::simkit::cluster::Slot::Up(_)));
                    if nreq > 0 && !busy && allow(&l, false) {
                        found = Some(Event::Deliver(l, 1));
                        break;
                    }
                    if nresp > 0 && !dead && allow(&l, true) {
                        found = Some(Event::DeliverResp(l));
                        break;
                    }
                }
                found
            };
            match pick {
                Some(e) => {
                    self.ev(e);
                }
                None => return stop(self),
            }
        }
        false
    }

    /// the voter whose answer the election in flight is waiting for
    pub fn next_vote_peer(&self) -> Option<u32> {
        self.cluster.as_ref().unwrap().election.as_ref().map(|e| e.peers[e.answered.len()])
    }

    /// node whose election (vote collection) is in flight
    pub fn election_node(&self) -> Option<u32> {
        self.cluster.as_ref().unwrap().election.as_ref().map(|e| e.node)
    }

    /// (link, queued requests, queued responses) of the live links
    pub fn links(&self) -> Vec<(LinkId, usize, usize, bool)> {
        self.cluster.as_ref().unwrap().links()
    }

    pub fn drain_all(&mut self) -> &mut Self {
        self.drain(|_, _| true)
    }

    pub fn view(&self, id: u32) -> Option<NodeView> {
        self.cluster.as_ref().unwrap().last_views.get(&id).cloned()
    }

    pub fn violations(&self) -> Vec<String> {
        self.cluster
            .as_ref()
            .unwrap()
            .oracle
            .violations
            .iter()
            .map(|v| format!("[{}] {}", v.property, v.what))
            .collect()
    }

    /// run harness code against the live cluster on the script's own runtime
    pub fn with_cluster<R, F>(&mut self, f: F) -> R
    where
        F: for<'a> FnOnce(&'a mut Cluster) -> std::pin::Pin<Box<dyn std::future::Future<Output = R> + 'a>>,
    {
        let mut c = self.cluster.take().unwrap();
        let r = self.rt.block_on(f(&mut c));
        self.cluster = Some(c);
        r
    }

    pub fn finish(mut self) -> Vec<Event> {
        let c = self.cluster.take();
        self.rt.block_on(async { drop(c) });
        std::mem::take(&mut self.events)
    }
}
