//! Per-property exploration specs for the cluster explorer (DESIGN.md §4).

use std::io::Write;

use crate::runner::RunSpec;
use crate::simkit::cluster::Event;
use crate::simkit::cluster::LinkId;
use crate::simkit::cluster::Op;
use crate::simkit::cluster::Opts;
use crate::simkit::cluster::VoteAns;
use crate::simkit::menu::Menu;
use crate::simkit::node::CrashMode;

pub struct Check {
    pub runs: Vec<RunSpec>,
    pub budget_s: u64,
}

/// scripted prefix: node `n` times out twice (follower -> candidate -> election) and every
/// other voter grants; leaves the noop AppendEntries in flight.
pub fn elect(n: u32, voters: &[u32]) -> Vec<Event> {
    let mut v = vec![Event::Timeout(n), Event::Timeout(n)];
    for p in voters {
        if *p != n {
            v.push(Event::Vote(*p, VoteAns::Deliver));
        }
    }
    v
}

fn put(k: &str, v: &str) -> Op {
    Op::Put(k.into(), v.into())
}

pub fn cluster_check(property: &str, tier: &str) -> Option<Check> {
    let quick = tier != "thorough";
    let three = Opts::default();
    match property {
        "C01" | "C31" | "ALL" => {
            let mut menu = Menu::default();
            menu.breaks = !quick;
            menu.max_heartbeats = 1;
            menu.mid_turn_timers = true;
            menu.resp_pairs = true;
            menu.vote_answers = vec![VoteAns::Deliver, VoteAns::LoseResp, VoteAns::Lose];
            menu.writes = vec![put("a", "1")];
            menu.max_writes = 1;
            menu.crashes = vec![CrashMode::Process];
            menu.stops = true;
            menu.max_crashes = 1;
            let mut runs = vec![RunSpec {
                name: "3v-from-boot".into(),
                opts: three.clone(),
                menu: menu.clone(),
                prefix: vec![],
                max_depth: if quick { 9 } else { 13 },
                max_devs: if quick { 2 } else { 3 },
            }];
            runs.push(RunSpec {
                name: "3v-leader1-elected".into(),
                opts: three.clone(),
                menu: menu.clone(),
                prefix: elect(1, &[1, 2, 3]),
                max_depth: if quick { 8 } else { 12 },
                max_devs: if quick { 2 } else { 3 },
            });
            // node 3 has run two elections nobody heard of and sits one term ahead of what node 1
            // or 2 can win next: replies carrying the higher term race with quorum-completing ones
            if let Some(p) = build_prefix(&three, |s| {
                for _ in 0..2 {
                    s.ev(Event::Timeout(3));
                    if s.election_node().is_none() {
                        s.ev(Event::Timeout(3));
                    }
                    while let Some(_) = s.election_node() {
                        let next = s.next_vote_peer();
                        match next {
                            Some(p) => {
                                s.ev(Event::Vote(p, VoteAns::Lose));
                            }
                            None => break,
                        }
                    }
                }
                s.view(3).map(|v| v.term >= 3).unwrap_or(false)
            }) {
                let mut m = menu.clone();
                m.timeout_nodes = vec![1, 2];
                m.max_crashes = 0;
                m.crashes = vec![];
                m.stops = false;
                m.max_writes = 0;
                m.mid_turn_timers = false;
                runs.push(RunSpec {
                    name: "3v-node3-two-terms-ahead-after-unheard-elections".into(),
                    opts: three.clone(),
                    menu: m,
                    prefix: p,
                    max_depth: if quick { 8 } else { 11 },
                    max_devs: if quick { 2 } else { 3 },
                });
            }
            // even-sized clusters: a majority of 4 is 3, of 2 is 2 (off-by-one in a quorum
            // computation does not show with 3 or 5 voters)
            {
                let mut four = three.clone();
                four.voters = vec![1, 2, 3, 4];
                let mut m4 = menu.clone();
                m4.max_crashes = 0;
                m4.stops = false;
                m4.crashes = vec![];
                m4.mid_turn_timers = false;
                m4.max_writes = 0;
                m4.max_heartbeats = 0;
                m4.vote_answers = vec![VoteAns::Deliver, VoteAns::Lose];
                runs.push(RunSpec {
                    name: "4v-from-boot".into(),
                    opts: four,
                    menu: m4.clone(),
                    prefix: vec![],
                    max_depth: if quick { 10 } else { 13 },
                    max_devs: if quick { 4 } else { 5 },
                });
                let mut two = three.clone();
                two.voters = vec![1, 2];
                runs.push(RunSpec {
                    name: "2v-from-boot".into(),
                    opts: two,
                    menu: m4,
                    prefix: vec![],
                    max_depth: if quick { 8 } else { 12 },
                    max_devs: if quick { 3 } else { 4 },
                });
            }
            if !quick {
                let mut five = three.clone();
                five.voters = vec![1, 2, 3, 4, 5];
                let mut m5 = menu.clone();
                m5.max_crashes = 0;
                m5.stops = false;
                m5.crashes = vec![];
                runs.push(RunSpec {
                    name: "5v-from-boot".into(),
                    opts: five,
                    menu: m5,
                    prefix: vec![],
                    max_depth: 11,
                    max_devs: 2,
                });
            }
            Some(Check { runs, budget_s: if quick { 50 } else { 900 } })
        }
        "C02" => {
            // votes and terms across crashes: every event of every node may be followed by a
            // crash (process / power) or a graceful stop, then restart and further elections
            let mut menu = Menu::default();
            menu.heartbeats = false;
            menu.vote_answers = vec![VoteAns::Deliver, VoteAns::LoseResp, VoteAns::Lose];
            // the property quantifies over process crashes (power loss of the meta store is C21)
            menu.crashes = vec![CrashMode::Process];
            menu.stops = true;
            menu.max_crashes = if quick { 2 } else { 3 };
            let runs = vec![
                RunSpec {
                    name: "3v-votes-and-crashes".into(),
                    opts: three.clone(),
                    menu: menu.clone(),
                    prefix: vec![],
                    max_depth: if quick { 10 } else { 14 },
                    max_devs: if quick { 3 } else { 4 },
                },
                RunSpec {
                    name: "3v-after-first-election".into(),
                    opts: three.clone(),
                    menu,
                    prefix: elect(1, &[1, 2, 3]),
                    max_depth: if quick { 8 } else { 12 },
                    max_devs: if quick { 3 } else { 4 },
                },
            ];
            Some(Check { runs, budget_s: if quick { 50 } else { 900 } })
        }
        "C04" | "C05" | "C06" | "C07" | "C09" | "C14" | "C29" => {
            let mut menu = Menu::default();
            menu.max_heartbeats = 2;
            menu.deliver_batch_max = 2;
            menu.breaks = true;
            menu.writes = vec![put("a", "1"), put("a", "2"), put("b", "3"), put("a", "4")];
            menu.max_writes = 2;
            menu.vote_answers = vec![VoteAns::Deliver, VoteAns::Lose];
            let mut opts = three.clone();
            opts.cap = 2;
            match property {
                "C05" | "C09" => {
                    menu.crashes = vec![CrashMode::Process, CrashMode::Power];
                    menu.max_crashes = 2;
                }
                "C06" => {
                    opts.gated_sm = vec![1, 2, 3];
                    menu.writes = vec![
                        put("a", "1"),
                        Op::Cas("a".into(), Some("1".into()), "2".into()),
                        Op::Del("a".into()),
                        Op::PutTtl("b".into(), "3".into(), 5),
                    ];
                    menu.max_writes = 3;
                    menu.breaks = false;
                }
                "C14" => {
                    menu.write_targets = crate::simkit::menu::Targets::All;
                    opts.max_pending_writes = 1;
                    menu.write_pairs = vec![(put("a", "p1"), put("a", "p2")), (put("a", "p3"), put("a", "p4"))];
                    menu.mid_turn_timers = false;
                    menu.max_writes = 3;
                    menu.writes = vec![put("a", "1"), put("a", "2"), put("b", "3")];
                }
                "C29" => {
                    opts.gated_sm = vec![1];
                    menu.writes = vec![
                        put("a", "1"),
                        Op::Cas("a".into(), Some("1".into()), "2".into()),
                        Op::Cas("a".into(), Some("zz".into()), "3".into()),
                        Op::Del("a".into()),
                    ];
                    menu.write_pairs = vec![
                        (put("a", "p1"), Op::Cas("a".into(), Some("p1".into()), "p2".into())),
                        (Op::Cas("a".into(), None, "p3".into()), put("b", "p4")),
                    ];
                    menu.mixed = vec![
                        (put("a", "m1"), "a".to_string()),
                        (Op::Cas("a".into(), Some("zz".into()), "m2".into()), "a".to_string()),
                        (Op::Cas("a".into(), Some("nope".into()), "m3".into()), "a".to_string()),
                    ];
                    menu.max_writes = 3;
                    menu.breaks = false;
                }
                _ => {}
            }
            let l12 = LinkId { from: 1, to: 2, generation: 1 };
            let l13 = LinkId { from: 1, to: 3, generation: 1 };
            // leader 1 elected, noop replicated to and acknowledged by node 2 only
            let mut p_lag: Vec<Event> = elect(1, &[1, 2, 3]);
            p_lag.extend([Event::Deliver(l12, 1), Event::DeliverResp(l12)]);
            // follower 3 lags: two writes replicated to node 2 only
            let mut p_lag3 = p_lag.clone();
            for w in [put("x", "w1"), put("x", "w2"), put("x", "w3")] {
                p_lag3.extend([Event::ClientWrite(1, w), Event::Deliver(l12, 1), Event::DeliverResp(l12)]);
            }
            let runs = vec![
                RunSpec {
                    name: "3v-leader-elected-cap2".into(),
                    opts: opts.clone(),
                    menu: menu.clone(),
                    prefix: elect(1, &[1, 2, 3]),
                    max_depth: if quick { if property == "C29" || property == "C14" { 7 } else { 8 } } else { 12 },
                    max_devs: if quick { 2 } else { 3 },
                },
                RunSpec {
                    name: "3v-follower3-lags-by-4-cap2".into(),
                    opts: opts.clone(),
                    menu: menu.clone(),
                    prefix: p_lag3,
                    max_depth: if quick { 7 } else { 11 },
                    max_devs: if quick { 2 } else { 3 },
                },
                RunSpec {
                    name: "3v-from-boot-cap2".into(),
                    opts: opts.clone(),
                    menu: menu.clone(),
                    prefix: vec![],
                    max_depth: if quick { 9 } else { 13 },
                    max_devs: if quick { 1 } else { 2 },
                },
            ];
            let _ = l13;
            let mut runs = runs;
            // ---- a new leader (node 2, term 3) whose log holds an UNCOMMITTED entry of the
            //      previous term below its own no-op; per-request cap 1, node 3 lags behind
            //      (the "Figure 8" situation: old-term entries must not be committed by counting)
            let mut o1 = opts.clone();
            o1.cap = 1;
            if let Some(p) = build_prefix(&o1, |s| {
                s.elect(1).drain_all();
                s.ev(Event::ClientWrite(1, put("x", "old")));
                // the write reaches node 2 only; its acknowledgement is never delivered
                let l = s.links().into_iter().find(|(l, n, _, dead)| l.from == 1 && l.to == 2 && *n > 0 && !*dead).map(|x| x.0);
                let Some(l) = l else { return false };
                s.ev(Event::Deliver(l, 1));
                s.elect(2);
                s.view(2).map(|v| v.role == crate::simkit::cluster::RoleKind::Leader && v.term == 3).unwrap_or(false)
            }) {
                let mut m = menu.clone();
                m.max_writes = 1;
                m.max_heartbeats = 1;
                m.crashes = vec![];
                m.max_crashes = 0;
                runs.push(RunSpec {
                    name: "3v-new-leader-holds-uncommitted-old-term-entry-cap1".into(),
                    opts: o1,
                    menu: m,
                    prefix: p,
                    max_depth: if quick { 9 } else { 12 },
                    max_devs: if quick { 1 } else { 2 },
                });
            }
            // ---- a deposed leader (node 1, term 2) that was cut off with an uncommitted tail of
            //      its own term, while two later leaders (node 2 in term 3, node 3 in term 4) filled
            //      the same indexes and committed them; per-request cap 1. The run starts when
            //      node 1 becomes reachable again: the leader's probe conflicts, and whatever it
            //      re-sends, node 1 must never mark its stale tail as committed.
            let mut o2 = opts.clone();
            o2.cap = 1;
            if let Some(p) = build_prefix(&o2, |s| {
                fn elect_without(s: &mut crate::prefix::Script, n: u32, skip: u32) {
                    s.ev(Event::Timeout(n));
                    s.ev(Event::Timeout(n));
                    for _ in 0..4 {
                        let Some(p) = s.next_vote_peer() else { break };
                        s.ev(Event::Vote(p, if p == skip { VoteAns::Lose } else { VoteAns::Deliver }));
                    }
                }
                s.elect(1).drain_all();
                s.ev(Event::ClientWrite(1, put("x", "w1")));
                s.drain_all();
                // reaches nobody
                s.ev(Event::ClientWrite(1, put("x", "stale")));
                elect_without(s, 2, 1);
                s.drain(|l, _| l.from == 2 && l.to == 3);
                elect_without(s, 3, 1);
                s.drain(|l, _| l.from == 3 && l.to == 2);
                let ok1 = s.view(1).map(|v| v.log.len() == 3 && v.log[2].term == 2).unwrap_or(false);
                let ok3 = s.view(3).map(|v| v.role == crate::simkit::cluster::RoleKind::Leader && v.commit >= 4).unwrap_or(false);
                ok1 && ok3
            }) {
                let mut m = menu.clone();
                m.max_writes = 0;
                m.max_heartbeats = 1;
                m.crashes = vec![];
                m.max_crashes = 0;
                runs.push(RunSpec {
                    name: "3v-deposed-leader-with-stale-tail-rejoins-after-two-terms-cap1".into(),
                    opts: o2,
                    menu: m,
                    prefix: p,
                    max_depth: if quick { 6 } else { 9 },
                    max_devs: if quick { 1 } else { 2 },
                });
            }
            Some(Check { runs, budget_s: if quick { 50 } else { 1200 } })
        }
        "C03" | "C26" | "C28" => Some(membership_check(property, quick)),
        "C27" => {
            let mut c = membership_check(property, quick);
            if let Some(r) = learner_lease_run(quick) {
                c.runs.insert(0, r);
            }
            Some(c)
        }
        "C10" | "C11" | "C12" => Some(timed_check(property, quick)),
        "C30" | "C32" => Some(liveness_check(property, quick)),
        "C33" => Some(compaction_check(quick)),
        _ => None,
    }
}

fn build_prefix<F: FnOnce(&mut crate::prefix::Script) -> bool + std::panic::UnwindSafe>(
    opts: &Opts,
    f: F,
) -> Option<Vec<Event>> {
    let o = opts.clone();
    std::panic::catch_unwind(move || {
        let mut s = crate::prefix::Script::new(&o);
        if f(&mut s) {
            Some(s.finish())
        } else {
            if std::env::var("VERIF_TRACE").is_ok() {
                eprintln!("prefix script did not reach its goal; events so far: {:?}", s.events);
                for id in 1..=5 {
                    if let Some(v) = s.view(id) {
                        eprintln!("  n{} {:?} t{} c{} log{:?} cfg{:?} members{:?}", v.id, v.role, v.term, v.commit,
                            v.log.iter().map(|e| (e.index, e.term)).collect::<Vec<_>>(), v.configs, v.members);
                    }
                }
                eprintln!("  links {:?}", s.links());
            }
            None
        }
    })
    .ok()
    .flatten()
}

/// Membership-change explorations (C03, C26, C27, C28).
fn membership_check(property: &str, quick: bool) -> Check {
    use crate::simkit::cluster::RoleKind;
    let mut runs = vec![];
    let mut menu = Menu::default();
    menu.joins = true;
    menu.max_heartbeats = 2;
    menu.vote_answers = vec![VoteAns::Deliver, VoteAns::Lose];
    menu.writes = vec![put("a", "1"), put("a", "2")];
    menu.max_writes = 1;
    if property == "C28" {
        menu.crashes = vec![CrashMode::Process];
        menu.stops = true;
        menu.max_crashes = 1;
    }

    // ---- A: 3 voters, two nodes may join; from the point where leader 1 is established
    let mut a = Opts::default();
    a.joiners = vec![4, 5];
    if let Some(p) = build_prefix(&a, |s| {
        s.elect(1).drain_all();
        true
    }) {
        runs.push(RunSpec {
            name: "3v+2joiners-leader-established".into(),
            opts: a.clone(),
            menu: menu.clone(),
            prefix: p,
            max_depth: if quick { 7 } else { 10 },
            max_devs: if quick { 1 } else { 2 },
        });
    }

    // ---- B: both learners joined and caught up; BatchPromote([4,5]) appended at the leader,
    //         replicated to node 2 only; leader applied it; 4 and 5 know about it; node 3 holds
    //         the entry but has not learned that it is committed
    if let Some(p) = build_prefix(&a, |s| {
        s.elect(1).drain_all();
        s.ev(Event::Join(4)).drain_all();
        s.ev(Event::Join(5));
        let has_promote = |s: &crate::prefix::Script| {
            s.view(1).map(|v| v.configs.iter().any(|(_, d)| d.starts_with("BatchPromote"))).unwrap_or(false)
        };
        // learners start from an empty log: several heartbeat rounds until they have caught up
        // and the leader proposes their promotion
        let mut reached = false;
        for _ in 0..10 {
            if s.drain_until(|_, _| true, has_promote) {
                reached = true;
                break;
            }
            s.ev(Event::Heartbeat(1));
        }
        if !reached {
            return false;
        }
        // the entry reaches node 2 and is acknowledged: committed by {1,2} of the old config
        s.drain(|l, _| l.from == 1 && l.to == 2);
        // node 3 receives the entry (no commit information yet)
        let l13 = s.links().into_iter().find(|(l, n, _, dead)| l.from == 1 && l.to == 3 && *n > 0 && !*dead).map(|x| x.0);
        if let Some(l) = l13 {
            s.ev(Event::Deliver(l, 1));
        }
        // the new voters learn the entry and that it is committed
        s.ev(Event::Heartbeat(1));
        s.drain(|l, _| l.from == 1 && (l.to == 4 || l.to == 5));
        s.view(4).map(|v| v.role == RoleKind::Follower).unwrap_or(false)
    }) {
        let mut m = menu.clone();
        m.joins = false;
        m.max_heartbeats = 1;
        runs.push(RunSpec {
            name: "3v->5v-promotion-applied-at-1-4-5-not-at-2-3".into(),
            opts: a.clone(),
            menu: m,
            prefix: p,
            max_depth: if quick { 9 } else { 12 },
            max_devs: if quick { 2 } else { 3 },
        });
    }

    // ---- C: a node bootstrapped alone, later expanded (C03: must still win real votes)
    let mut c1 = Opts::default();
    c1.voters = vec![1];
    c1.joiners = vec![2, 3];
    if let Some(p) = build_prefix(&c1, |s| {
        s.ev(Event::Timeout(1)).ev(Event::Timeout(1)).drain_all();
        s.view(1).map(|v| v.role == RoleKind::Leader).unwrap_or(false)
    }) {
        runs.push(RunSpec {
            name: "1v+2joiners-single-node-leader".into(),
            opts: c1.clone(),
            menu: menu.clone(),
            prefix: p,
            max_depth: if quick { 8 } else { 11 },
            max_devs: if quick { 1 } else { 2 },
        });
    }
    // ---- D: the single node has been expanded to 3 voters; then its leader role ends
    if let Some(p) = build_prefix(&c1, |s| {
        s.ev(Event::Timeout(1)).ev(Event::Timeout(1)).drain_all();
        s.ev(Event::Join(2)).drain_all();
        s.ev(Event::Join(3));
        let promoted = |s: &crate::prefix::Script| {
            s.view(2).map(|v| v.role == RoleKind::Follower).unwrap_or(false)
                && s.view(3).map(|v| v.role == RoleKind::Follower).unwrap_or(false)
        };
        for _ in 0..12 {
            if s.drain_until(|_, _| true, promoted) {
                return true;
            }
            s.ev(Event::Heartbeat(1));
        }
        false
    }) {
        let mut m = menu.clone();
        m.joins = false;
        m.crashes = vec![CrashMode::Process];
        m.stops = true;
        m.max_crashes = 1;
        runs.push(RunSpec {
            name: "1v-expanded-to-3v".into(),
            opts: c1.clone(),
            menu: m,
            prefix: p,
            max_depth: if quick { 8 } else { 11 },
            max_devs: if quick { 2 } else { 3 },
        });
    }
    Check { runs, budget_s: if quick { 50 } else { 1200 } }
}

/// Timed explorations (C10, C11, C12): virtual time passes only through `Tick` (jump to the next
/// timer deadline of a live node); election timeouts are 10 s + 2 s per node position, heartbeat
/// 3 s, lease 5 s (lease < minimum election timeout, as validation demands).
pub fn timed_opts() -> Opts {
    let mut o = Opts::default();
    o.timed = true;
    o.election_min_ms = 10_000;
    o.election_offsets_ms = vec![0, 2_000, 4_000, 6_000, 8_000];
    o.heartbeat_ms = 3_000;
    o.lease_ms = 5_000;
    o.raft_timeout_ms = 7_000;
    o.noop_timeout_ms = 20_000;
    o
}

/// A learner keeps acknowledging the leader while both other voters hear nothing from it and
/// elect a new leader among themselves: the learner's acknowledgements must not keep the old
/// leader's lease alive (C12, C27).
fn learner_lease_run(quick: bool) -> Option<RunSpec> {
    use crate::simkit::cluster::RPolicy;
    let mut ol = timed_opts();
    ol.learners = vec![4];
    let mut m = Menu::default();
    m.timeouts = false;
    m.heartbeats = false;
    m.max_ticks = if quick { 2 } else { 4 };
    m.vote_answers = vec![VoteAns::Deliver, VoteAns::Lose];
    m.read_targets = crate::simkit::menu::Targets::Leaders;
    m.max_reads = 2;
    m.reads = vec![("a".into(), RPolicy::Lease)];
    let p = build_prefix(&ol, |s| {
        let Some(l) = s.run_until_leader() else { return false };
        if l != 1 {
            return false;
        }
        s.drain_all();
        for _ in 0..60 {
            if s.election_node() == Some(2) {
                return true;
            }
            if s.election_node().is_some() {
                return false;
            }
            s.ev(Event::Tick);
            // only the learner hears from the leader (and answers)
            s.drain(|l, _| l.from == 1 && l.to == 4);
        }
        false
    })?;
    Some(RunSpec {
        name: "3v+1learner-timed-only-the-learner-hears-the-leader-node2-starts-election".into(),
        opts: ol,
        menu: m,
        prefix: p,
        max_depth: if quick { 8 } else { 11 },
        max_devs: if quick { 2 } else { 3 },
    })
}

fn timed_check(property: &str, quick: bool) -> Check {
    use crate::simkit::cluster::RPolicy;
    let mut runs = vec![];
    let opts = timed_opts();
    let mut menu = Menu::default();
    menu.timeouts = false;
    menu.heartbeats = false;
    menu.max_ticks = if quick { 7 } else { 10 };
    menu.vote_answers = vec![VoteAns::Deliver, VoteAns::Lose];
    menu.writes = vec![put("a", "1"), put("a", "2")];
    menu.max_writes = 1;
    menu.write_targets = crate::simkit::menu::Targets::Leaders;
    menu.read_targets = crate::simkit::menu::Targets::Leaders;
    menu.max_reads = 2;
    match property {
        "C12" => menu.reads = vec![("a".into(), RPolicy::Lease)],
        _ => menu.reads = vec![("a".into(), RPolicy::Linearizable)],
    }
    if property == "C10" {
        menu.crashes = vec![CrashMode::Process];
        menu.max_crashes = 1;
    }
    // ---- A: an established leader whose lease was just renewed by both followers
    if let Some(p) = build_prefix(&opts, |s| {
        let Some(_l) = s.run_until_leader() else { return false };
        s.drain_all();
        true
    }) {
        runs.push(RunSpec {
            name: "3v-timed-established-leader".into(),
            opts: opts.clone(),
            menu: menu.clone(),
            prefix: p,
            max_depth: if quick { 11 } else { 14 },
            max_devs: if quick { 2 } else { 3 },
        });
    }
    // ---- P: partial partition. Leader 1 keeps exchanging heartbeats with node 2 (its lease is
    //         fresh) while nothing reaches node 3, which finally starts an election. The prefix
    //         ends with node 3's vote requests in flight.
    if let Some(p) = build_prefix(&opts, |s| {
        let Some(l) = s.run_until_leader() else { return false };
        if l != 1 {
            return false;
        }
        s.drain_all();
        for _ in 0..40 {
            if s.election_node() == Some(3) {
                return true;
            }
            if s.election_node().is_some() {
                return false;
            }
            s.ev(Event::Tick);
            // whatever the leader sends reaches node 2 (and is acknowledged), never node 3
            s.drain(|l, _| l.from == 1 && l.to == 2);
        }
        false
    }) {
        let mut m = menu.clone();
        m.max_ticks = if quick { 2 } else { 4 };
        m.max_writes = 1;
        m.write_targets = crate::simkit::menu::Targets::Leaders;
        runs.push(RunSpec {
            name: "3v-timed-node3-cut-off-starts-election-while-leader-lease-is-fresh".into(),
            opts: opts.clone(),
            menu: m,
            prefix: p,
            max_depth: if quick { if property == "C10" { 7 } else { 9 } } else { 12 },
            max_devs: if quick { 2 } else { 3 },
        });
    }
    if property == "C12" {
        if let Some(r) = learner_lease_run(quick) {
            runs.push(r);
        }
    }
    // ---- B: same, with an acknowledged write and a gated (lagging) state machine on the leader
    let mut og = opts.clone();
    og.gated_sm = vec![1];
    if property != "C12" {
        if let Some(p) = build_prefix(&og, |s| {
            let Some(l) = s.run_until_leader() else { return false };
            s.drain_all();
            // let the leader apply its no-op
            for _ in 0..4 {
                let waiting = s.view(l).is_some();
                if !waiting {
                    break;
                }
                let c = s.events.len();
                let _ = c;
                break;
            }
            true
        }) {
            let mut m = menu.clone();
            m.max_ticks = if quick { 4 } else { 7 };
            runs.push(RunSpec {
                name: "3v-timed-leader-with-lagging-state-machine".into(),
                opts: og.clone(),
                menu: m,
                prefix: p,
                max_depth: if quick { 9 } else { 12 },
                max_devs: if quick { 2 } else { 3 },
            });
        }
    }
    // ---- N: a NEW leader whose state machine lags behind a write the OLD leader acknowledged.
    //         Leader 1 commits, applies and acknowledges put(a, kept); node 2 has the entry (and
    //         the commit index) but its state machine is gated, so nothing is applied there.
    //         Node 1 crashes, node 2 wins the next election and commits its no-op through node 3.
    //         A linearizable read on node 2 must wait for the state machine, whatever
    //         acknowledgements arrive meanwhile.
    if property != "C12" {
        let mut on = opts.clone();
        on.gated_sm = vec![2];
        if let Some(p) = build_prefix(&on, |s| {
            let Some(l) = s.run_until_leader() else { return false };
            if l != 1 {
                return false;
            }
            s.drain_all();
            s.ev(Event::ClientWrite(1, put("a", "kept")));
            s.drain_all();
            // one more heartbeat round so that the followers learn the commit index
            s.ev(Event::Tick);
            s.drain_all();
            s.ev(Event::Crash(1, CrashMode::Process));
            for _ in 0..40 {
                if let Some(p) = s.next_vote_peer() {
                    s.ev(Event::Vote(p, VoteAns::Deliver));
                    continue;
                }
                if s.view(2).map(|v| v.role == crate::simkit::cluster::RoleKind::Leader).unwrap_or(false) {
                    break;
                }
                if s.view(3).map(|v| v.role == crate::simkit::cluster::RoleKind::Leader).unwrap_or(false) {
                    return false;
                }
                s.ev(Event::Tick);
            }
            if !s.view(2).map(|v| v.role == crate::simkit::cluster::RoleKind::Leader).unwrap_or(false) {
                return false;
            }
            // the no-op reaches node 3 and its acknowledgement commits it
            s.drain(|l, _| l.from == 2 && l.to == 3);
            let v = s.view(2).unwrap();
            v.commit >= 3 && v.applied < 2
        }) {
            let mut m = menu.clone();
            m.max_ticks = if quick { 3 } else { 5 };
            m.max_writes = 0;
            m.crashes = vec![];
            m.max_crashes = 0;
            m.apply_release = true;
            runs.insert(0, RunSpec {
                name: "3v-timed-new-leader-state-machine-lags-behind-acknowledged-write".into(),
                opts: on,
                menu: m,
                prefix: p,
                max_depth: if quick { 6 } else { 9 },
                max_devs: if quick { 2 } else { 3 },
            });
        }
    }
    // ---- R (C10): an acknowledged write, then a graceful stop of the WHOLE cluster in every
    //         order, restart, a new election; a linearizable read must return the value
    if property == "C10" {
        let orders: Vec<[u32; 3]> = vec![[1, 2, 3], [1, 3, 2], [2, 1, 3], [2, 3, 1], [3, 1, 2], [3, 2, 1]];
        for (k, ord) in orders.iter().enumerate() {
            if quick && k % 2 == 1 {
                continue;
            }
            let ord = *ord;
            if let Some(p) = build_prefix(&opts, move |s| {
                let Some(l) = s.run_until_leader() else { return false };
                s.drain_all();
                s.ev(Event::ClientWrite(l, put("a", "kept")));
                s.drain_all();
                // one more heartbeat round so that the followers learn the commit index
                s.ev(Event::Tick);
                s.drain_all();
                for n in ord {
                    s.ev(Event::Stop(n));
                }
                for n in ord.iter().rev() {
                    s.ev(Event::Restart(*n));
                }
                let Some(_l2) = s.run_until_leader() else { return false };
                s.drain_all();
                true
            }) {
                let mut m = menu.clone();
                m.crashes = vec![];
                m.max_crashes = 0;
                m.max_writes = 0;
                m.max_ticks = 2;
                m.max_reads = 1;
                runs.insert(0, RunSpec {
                    name: format!("3v-timed-acked-write-full-graceful-restart-order-{}{}{}", ord[0], ord[1], ord[2]),
                    opts: opts.clone(),
                    menu: m,
                    prefix: p,
                    max_depth: if quick { 4 } else { 6 },
                    max_devs: 1,
                });
            }
        }
        // the crash exploration from an established leader is the most expensive run: last
        if let Some(pos) = runs.iter().position(|r| r.name == "3v-timed-established-leader") {
            let mut r = runs.remove(pos);
            r.max_depth = if quick { 8 } else { 13 };
            runs.push(r);
        }
    }
    Check { runs, budget_s: if quick { 50 } else { 1200 } }
}

/// C30 (every accepted request is answered by its deadline) and C32 (recovery once faults
/// stop): timed explorations of a fault prefix; the explorer appends a closure to every path.
fn liveness_check(property: &str, quick: bool) -> Check {
    use crate::simkit::cluster::RPolicy;
    use crate::simkit::menu::Closure;
    let mut runs = vec![];
    let opts = timed_opts();
    let mut menu = Menu::default();
    menu.timeouts = false;
    menu.heartbeats = false;
    menu.vote_answers = vec![VoteAns::Deliver, VoteAns::Lose];
    if property == "C30" {
        menu.max_ticks = if quick { 3 } else { 5 };
        menu.writes = vec![put("a", "1"), Op::Cas("a".into(), Some("1".into()), "2".into())];
        menu.max_writes = 2;
        menu.mixed = vec![(put("a", "m1"), "a".to_string())];
        menu.reads = vec![("a".into(), RPolicy::Linearizable), ("a".into(), RPolicy::Lease)];
        menu.max_reads = 2;
        menu.crashes = vec![CrashMode::Process];
        menu.max_crashes = 1;
        menu.fatal_sm = true;
        menu.closure = Closure::TimeOnly(8);
        if let Some(p) = build_prefix(&opts, |s| {
            let Some(_l) = s.run_until_leader() else { return false };
            s.drain_all();
            true
        }) {
            // (the menu's counters include the prefix, whose election needed ticks of its own)
            let mut m = menu.clone();
            m.max_ticks = p.iter().filter(|e| matches!(e, Event::Tick)).count() + if quick { 1 } else { 4 };
            runs.push(RunSpec {
                name: "3v-timed-requests-then-stepdown-fatal-or-lost-quorum".into(),
                opts: opts.clone(),
                menu: m,
                prefix: p,
                max_depth: if quick { 7 } else { 10 },
                max_devs: if quick { 2 } else { 3 },
            });
        }
        // a leader that has not confirmed its leadership yet (no-op not committed)
        if let Some(p) = build_prefix(&opts, |s| s.run_until_leader().is_some()) {
            runs.push(RunSpec {
                name: "3v-timed-fresh-leader-noop-uncommitted".into(),
                opts: opts.clone(),
                menu: menu.clone(),
                prefix: p,
                max_depth: if quick { 6 } else { 9 },
                max_devs: if quick { 2 } else { 3 },
            });
        }
        // a leader that has lost both followers for good and whose lease has run out: nothing
        // commits any more, every linearizable read parks behind the same read index, and each
        // must still be answered (DeadlineExceeded) by its OWN deadline
        if let Some(p) = build_prefix(&opts, |s| {
            let Some(l) = s.run_until_leader() else { return false };
            if l != 1 {
                return false;
            }
            s.drain_all();
            s.ev(Event::Crash(2, CrashMode::Process));
            s.ev(Event::Crash(3, CrashMode::Process));
            for _ in 0..6 {
                if s.view(1).map(|v| v.lease_left == 0).unwrap_or(false) {
                    return true;
                }
                s.ev(Event::Tick);
            }
            false
        }) {
            let mut m = menu.clone();
            m.reads = vec![("a".into(), RPolicy::Linearizable)];
            m.max_reads = 3;
            // the menu's counters include the prefix: allow 4 (6) ticks beyond it
            m.max_ticks = p.iter().filter(|e| matches!(e, Event::Tick)).count() + if quick { 4 } else { 6 };
            m.max_writes = 1;
            m.mixed = vec![];
            m.crashes = vec![];
            m.max_crashes = 0;
            m.fatal_sm = false;
            runs.push(RunSpec {
                name: "3v-timed-leader-lost-both-followers-lease-expired".into(),
                opts: opts.clone(),
                menu: m,
                prefix: p,
                max_depth: if quick { 7 } else { 10 },
                max_devs: if quick { 2 } else { 3 },
            });
        }
        // gated state machine: applies lag behind commits
        let mut og = opts.clone();
        og.gated_sm = vec![1];
        if let Some(p) = build_prefix(&og, |s| {
            let Some(_l) = s.run_until_leader() else { return false };
            s.drain_all();
            true
        }) {
            runs.push(RunSpec {
                name: "3v-timed-leader-state-machine-stalls".into(),
                opts: og,
                menu: menu.clone(),
                prefix: p,
                max_depth: if quick { 6 } else { 9 },
                max_devs: if quick { 1 } else { 2 },
            });
        }
    } else {
        menu.max_ticks = if quick { 4 } else { 6 };
        menu.writes = vec![put("a", "1"), put("a", "2")];
        menu.max_writes = 1;
        menu.crashes = vec![CrashMode::Process, CrashMode::Power];
        menu.stops = true;
        menu.max_crashes = 2;
        menu.breaks = true;
        menu.closure = Closure::Recover(if quick { 120 } else { 200 });
        runs.push(RunSpec {
            name: "3v-timed-faults-from-boot-then-recovery".into(),
            opts: opts.clone(),
            menu: menu.clone(),
            prefix: vec![],
            max_depth: if quick { 9 } else { 10 },
            max_devs: if quick { 2 } else { 3 },
        });
        if let Some(p) = build_prefix(&opts, |s| {
            let Some(_l) = s.run_until_leader() else { return false };
            s.drain_all();
            true
        }) {
            // the menu's counters include the prefix, whose election needed ticks of its own
            let mut m = menu.clone();
            m.max_ticks = p.iter().filter(|e| matches!(e, Event::Tick)).count() + if quick { 2 } else { 4 };
            runs.push(RunSpec {
                name: "3v-timed-faults-under-an-established-leader-then-recovery".into(),
                opts: opts.clone(),
                menu: m,
                prefix: p,
                max_depth: if quick { 8 } else { 10 },
                max_devs: if quick { 2 } else { 3 },
            });
        }
    }
    Check { runs, budget_s: if quick { 50 } else { 1200 } }
}

/// C33 (cluster part): snapshots, purges and a peer that lags behind the purge boundary.
/// Timed runs: snapshot-push retries and back-off windows need time to pass.
fn compaction_check(quick: bool) -> Check {
    let mut runs = vec![];
    let mut opts = timed_opts();
    opts.snapshot_enable = true;
    opts.retained = 1;
    opts.cap = 2;
    let mut menu = Menu::default();
    menu.timeouts = false;
    menu.heartbeats = false;
    menu.max_ticks = if quick { 4 } else { 6 };
    menu.snapshots = true;
    menu.max_snapshots = 2;
    menu.writes = vec![put("a", "1"), put("a", "2"), put("b", "3")];
    menu.max_writes = 1;
    menu.vote_answers = vec![VoteAns::Deliver];
    menu.crashes = vec![CrashMode::Process];
    menu.stops = true;
    menu.max_crashes = 1;
    menu.crash_nodes = vec![1];
    menu.closure = crate::simkit::menu::Closure::Recover(if quick { 150 } else { 250 });
    // node 3 is down while leader 1 commits and applies four writes (acknowledged by node 2);
    // variant A: exploration starts when node 3 returns (snapshot/purge timing is explored);
    // variant B: the leader has already taken a snapshot and purged its log before node 3 returns
    let base = |s: &mut crate::prefix::Script| -> bool {
        let Some(l) = s.run_until_leader() else { return false };
        if l != 1 {
            return false;
        }
        s.drain_all();
        s.ev(Event::Crash(3, CrashMode::Process));
        for v in ["w1", "w2", "w3", "w4"] {
            s.ev(Event::ClientWrite(1, put("x", v)));
            s.drain(|l, _| l.from == 1 && l.to == 2);
        }
        s.ev(Event::Tick);
        s.drain(|l, _| l.from == 1 && l.to == 2);
        s.view(1).map(|v| v.applied >= 5 && v.role == crate::simkit::cluster::RoleKind::Leader).unwrap_or(false)
    };
    if let Some(p) = build_prefix(&opts, |s| {
        if !base(s) {
            return false;
        }
        s.ev(Event::Restart(3));
        true
    }) {
        // the menu's counters include the prefix (its ticks, writes and the crash of node 3)
        let mut m = menu.clone();
        m.max_ticks = p.iter().filter(|e| matches!(e, Event::Tick)).count() + if quick { 2 } else { 3 };
        m.max_writes = 4 + 1;
        m.max_crashes = 1 + 1;
        runs.push(RunSpec {
            name: "3v-node3-far-behind-snapshot-and-purge-timing-explored".into(),
            opts: opts.clone(),
            menu: m,
            prefix: p,
            max_depth: if quick { 10 } else { 13 },
            max_devs: if quick { 2 } else { 3 },
        });
    }
    if let Some(p) = build_prefix(&opts, |s| {
        if !base(s) {
            return false;
        }
        s.ev(Event::Snapshot(1));
        s.drain(|l, _| l.from == 1 && l.to == 2);
        // the leader has purged: its log no longer starts at index 1
        if !s.view(1).map(|v| v.first > 1 || (v.log.is_empty() && v.last_log_id.is_some())).unwrap_or(false) {
            return false;
        }
        s.ev(Event::Restart(3));
        true
    }) {
        let mut m = menu.clone();
        m.max_snapshots = 1 + 1;
        m.max_ticks = p.iter().filter(|e| matches!(e, Event::Tick)).count() + if quick { 2 } else { 3 };
        m.max_writes = 4 + 1;
        m.max_crashes = 1 + 1;
        runs.push(RunSpec {
            name: "3v-leader-purged-node3-below-the-boundary-returns".into(),
            opts: opts.clone(),
            menu: m,
            prefix: p,
            max_depth: if quick { 10 } else { 13 },
            max_devs: if quick { 2 } else { 3 },
        });
    }
    Check { runs, budget_s: if quick { 40 } else { 900 } }
}

pub fn replay_file(property: &str, path: &str, out: &mut std::fs::File) -> i32 {
    let text = match std::fs::read_to_string(path) {
        Ok(t) => t,
        Err(e) => {
            let _ = writeln!(out, "MACHINERY-ERROR cannot read {path}: {e}");
            return 2;
        }
    };
    let v: serde_json::Value = match serde_json::from_str(&text) {
        Ok(v) => v,
        Err(e) => {
            let _ = writeln!(out, "MACHINERY-ERROR cannot parse {path}: {e}");
            return 2;
        }
    };
    let opts: Opts = if v["opts"].is_null() {
        Opts::default()
    } else {
        match serde_json::from_value(v["opts"].clone()) {
        Ok(o) => o,
        Err(e) => {
            let _ = writeln!(out, "MACHINERY-ERROR bad opts in {path}: {e}");
            return 2;
        }
        }
    };
    let events: Vec<Event> = match serde_json::from_value(v["events"].clone()) {
        Ok(o) => o,
        Err(e) => {
            let _ = writeln!(out, "MACHINERY-ERROR bad events in {path}: {e}");
            return 2;
        }
    };
    match crate::runner::replay(&opts, &events) {
        Ok(vs) => {
            let mine: Vec<_> = vs.iter().filter(|x| x.property == property).collect();
            for x in &vs {
                let _ = writeln!(out, "  [{}] {}", x.property, x.what);
            }
            if mine.is_empty() {
                let _ = writeln!(out, "replay of {path}: property {property} held");
                0
            } else {
                let _ = writeln!(out, "VIOLATION property={property} replay={path}");
                1
            }
        }
        Err(e) => {
            let _ = writeln!(out, "MACHINERY-ERROR replay of {path}: {e}");
            2
        }
    }
}
