//! Per-property exploration specs for the cluster explorer (DESIGN.md §4).

use std::io::Write;

use crate::runner::RunSpec;
use crate::simkit::cluster::Event;
use crate::simkit::cluster::LinkId;
use crate::simkit::cluster::Op;
use crate::simkit::cluster::Opts;
use crate::simkit::cluster::VoteAns;
use crate::simkit::menu::Menu;
use crate::simkit::node::CrashMode;

pub struct Check {
    pub runs: Vec<RunSpec>,
    pub budget_s: u64,
}

/// scripted prefix: node `n` times out twice (follower -> candidate -> election) and every
/// other voter grants; leaves the noop AppendEntries in flight.
pub fn elect(n: u32, voters: &[u32]) -> Vec<Event> {
    let mut v = vec![Event::Timeout(n), Event::Timeout(n)];
    for p in voters {
        if *p != n {
            v.push(Event::Vote(*p, VoteAns::Deliver));
        }
    }
    v
}

fn put(k: &str, v: &str) -> Op {
    Op::Put(k.into(), v.into())
}

pub fn cluster_check(property: &str, tier: &str) -> Option<Check> {
    let quick = tier != "thorough";
    let three = Opts::default();
    match property {
        "C01" | "C31" | "ALL" => {
            let mut menu = Menu::default();
            menu.breaks = !quick;
            menu.max_heartbeats = 1;
            menu.mid_turn_timers = true;
            menu.vote_answers = vec![VoteAns::Deliver, VoteAns::LoseResp, VoteAns::Lose];
            menu.writes = vec![put("a", "1")];
            menu.max_writes = 1;
            menu.crashes = vec![CrashMode::Process];
            menu.stops = true;
            menu.max_crashes = 1;
            let mut runs = vec![RunSpec {
                name: "3v-from-boot".into(),
                opts: three.clone(),
                menu: menu.clone(),
                prefix: vec![],
                max_depth: if quick { 9 } else { 13 },
                max_devs: if quick { 2 } else { 3 },
            }];
            runs.push(RunSpec {
                name: "3v-leader1-elected".into(),
                opts: three.clone(),
                menu: menu.clone(),
                prefix: elect(1, &[1, 2, 3]),
                max_depth: if quick { 8 } else { 12 },
                max_devs: if quick { 2 } else { 3 },
            });
            if !quick {
                let mut five = three.clone();
                five.voters = vec![1, 2, 3, 4, 5];
                let mut m5 = menu.clone();
                m5.max_crashes = 0;
                m5.stops = false;
                m5.crashes = vec![];
                runs.push(RunSpec {
                    name: "5v-from-boot".into(),
                    opts: five,
                    menu: m5,
                    prefix: vec![],
                    max_depth: 11,
                    max_devs: 2,
                });
            }
            Some(Check { runs, budget_s: if quick { 50 } else { 900 } })
        }
        "C02" => {
            // votes and terms across crashes: every event of every node may be followed by a
            // crash (process / power) or a graceful stop, then restart and further elections
            let mut menu = Menu::default();
            menu.heartbeats = false;
            menu.vote_answers = vec![VoteAns::Deliver, VoteAns::LoseResp];
            // the property quantifies over process crashes (power loss of the meta store is C21)
            menu.crashes = vec![CrashMode::Process];
            menu.stops = true;
            menu.max_crashes = if quick { 2 } else { 3 };
            let runs = vec![
                RunSpec {
                    name: "3v-votes-and-crashes".into(),
                    opts: three.clone(),
                    menu: menu.clone(),
                    prefix: vec![],
                    max_depth: if quick { 10 } else { 14 },
                    max_devs: if quick { 3 } else { 4 },
                },
                RunSpec {
                    name: "3v-after-first-election".into(),
                    opts: three.clone(),
                    menu,
                    prefix: elect(1, &[1, 2, 3]),
                    max_depth: if quick { 8 } else { 12 },
                    max_devs: if quick { 3 } else { 4 },
                },
            ];
            Some(Check { runs, budget_s: if quick { 50 } else { 900 } })
        }
        "C04" | "C05" | "C06" | "C07" | "C09" | "C14" | "C29" => {
            let mut menu = Menu::default();
            menu.max_heartbeats = 2;
            menu.deliver_batch_max = 2;
            menu.breaks = true;
            menu.writes = vec![put("a", "1"), put("a", "2"), put("b", "3"), put("a", "4")];
            menu.max_writes = 2;
            menu.vote_answers = vec![VoteAns::Deliver, VoteAns::Lose];
            let mut opts = three.clone();
            opts.cap = 2;
            match property {
                "C05" | "C09" => {
                    menu.crashes = vec![CrashMode::Process, CrashMode::Power];
                    menu.max_crashes = 2;
                }
                "C06" => {
                    opts.gated_sm = vec![1, 2, 3];
                    menu.writes = vec![
                        put("a", "1"),
                        Op::Cas("a".into(), Some("1".into()), "2".into()),
                        Op::Del("a".into()),
                        Op::PutTtl("b".into(), "3".into(), 5),
                    ];
                    menu.max_writes = 3;
                    menu.breaks = false;
                }
                "C14" => {
                    menu.write_targets = crate::simkit::menu::Targets::All;
                    opts.max_pending_writes = 1;
                    menu.write_pairs = vec![(put("a", "p1"), put("a", "p2")), (put("a", "p3"), put("a", "p4"))];
                    menu.mid_turn_timers = false;
                    menu.max_writes = 3;
                    menu.writes = vec![put("a", "1"), put("a", "2"), put("b", "3")];
                }
                "C29" => {
                    opts.gated_sm = vec![1];
                    menu.writes = vec![
                        put("a", "1"),
                        Op::Cas("a".into(), Some("1".into()), "2".into()),
                        Op::Cas("a".into(), Some("zz".into()), "3".into()),
                        Op::Del("a".into()),
                    ];
                    menu.write_pairs = vec![
                        (put("a", "p1"), Op::Cas("a".into(), Some("p1".into()), "p2".into())),
                        (Op::Cas("a".into(), None, "p3".into()), put("b", "p4")),
                    ];
                    menu.max_writes = 3;
                    menu.breaks = false;
                }
                _ => {}
            }
            let l12 = LinkId { from: 1, to: 2, generation: 1 };
            let l13 = LinkId { from: 1, to: 3, generation: 1 };
            // leader 1 elected, noop replicated to and acknowledged by node 2 only
            let mut p_lag: Vec<Event> = elect(1, &[1, 2, 3]);
            p_lag.extend([Event::Deliver(l12, 1), Event::DeliverResp(l12)]);
            // follower 3 lags: two writes replicated to node 2 only
            let mut p_lag3 = p_lag.clone();
            for w in [put("x", "w1"), put("x", "w2"), put("x", "w3")] {
                p_lag3.extend([Event::ClientWrite(1, w), Event::Deliver(l12, 1), Event::DeliverResp(l12)]);
            }
            let runs = vec![
                RunSpec {
                    name: "3v-leader-elected-cap2".into(),
                    opts: opts.clone(),
                    menu: menu.clone(),
                    prefix: elect(1, &[1, 2, 3]),
                    max_depth: if quick { 8 } else { 12 },
                    max_devs: if quick { 2 } else { 3 },
                },
                RunSpec {
                    name: "3v-follower3-lags-by-4-cap2".into(),
                    opts: opts.clone(),
                    menu: menu.clone(),
                    prefix: p_lag3,
                    max_depth: if quick { 7 } else { 11 },
                    max_devs: if quick { 2 } else { 3 },
                },
                RunSpec {
                    name: "3v-from-boot-cap2".into(),
                    opts: opts.clone(),
                    menu: menu.clone(),
                    prefix: vec![],
                    max_depth: if quick { 9 } else { 13 },
                    max_devs: if quick { 1 } else { 2 },
                },
            ];
            let _ = l13;
            Some(Check { runs, budget_s: if quick { 50 } else { 1200 } })
        }
        _ => None,
    }
}

pub fn replay_file(property: &str, path: &str, out: &mut std::fs::File) -> i32 {
    let text = match std::fs::read_to_string(path) {
        Ok(t) => t,
        Err(e) => {
            let _ = writeln!(out, "MACHINERY-ERROR cannot read {path}: {e}");
            return 2;
        }
    };
    let v: serde_json::Value = match serde_json::from_str(&text) {
        Ok(v) => v,
        Err(e) => {
            let _ = writeln!(out, "MACHINERY-ERROR cannot parse {path}: {e}");
            return 2;
        }
    };
    let opts: Opts = if v["opts"].is_null() {
        Opts::default()
    } else {
        match serde_json::from_value(v["opts"].clone()) {
        Ok(o) => o,
        Err(e) => {
            let _ = writeln!(out, "MACHINERY-ERROR bad opts in {path}: {e}");
            return 2;
        }
        }
    };
    let events: Vec<Event> = match serde_json::from_value(v["events"].clone()) {
        Ok(o) => o,
        Err(e) => {
            let _ = writeln!(out, "MACHINERY-ERROR bad events in {path}: {e}");
            return 2;
        }
    };
    match crate::runner::replay(&opts, &events) {
        Ok(vs) => {
            let mine: Vec<_> = vs.iter().filter(|x| x.property == property).collect();
            for x in &vs {
                let _ = writeln!(out, "  [{}] {}", x.property, x.what);
            }
            if mine.is_empty() {
                let _ = writeln!(out, "replay of {path}: property {property} held");
                0
            } else {
                let _ = writeln!(out, "VIOLATION property={property} replay={path}");
                1
            }
        }
        Err(e) => {
            let _ = writeln!(out, "MACHINERY-ERROR replay of {path}: {e}");
            2
        }
    }
}
