//! Per-property exploration specs for the cluster explorer (DESIGN.md §4).

use std::io::Write;

use crate::runner::RunSpec;
use crate::simkit::cluster::Event;
use crate::simkit::cluster::Op;
use crate::simkit::cluster::Opts;
use crate::simkit::cluster::VoteAns;
use crate::simkit::menu::Menu;
use crate::simkit::node::CrashMode;

pub struct Check {
    pub runs: Vec<RunSpec>,
    pub budget_s: u64,
}

/// scripted prefix: node `n` times out twice (follower -> candidate -> election) and every
/// other voter grants; leaves the noop AppendEntries in flight.
pub fn elect(n: u32, voters: &[u32]) -> Vec<Event> {
    let mut v = vec![Event::Timeout(n), Event::Timeout(n)];
    for p in voters {
        if *p != n {
            v.push(Event::Vote(*p, VoteAns::Deliver));
        }
    }
    v
}

fn put(k: &str, v: &str) -> Op {
    Op::Put(k.into(), v.into())
}

pub fn cluster_check(property: &str, tier: &str) -> Option<Check> {
    let quick = tier != "thorough";
    let three = Opts::default();
    match property {
        "C01" | "C31" => {
            let mut menu = Menu::default();
            menu.breaks = !quick;
            menu.max_heartbeats = 1;
            menu.mid_turn_timers = true;
            menu.vote_answers = vec![VoteAns::Deliver, VoteAns::LoseResp, VoteAns::Lose];
            menu.writes = vec![put("a", "1")];
            menu.max_writes = 1;
            menu.crashes = vec![CrashMode::Process];
            menu.stops = true;
            menu.max_crashes = 1;
            let mut runs = vec![RunSpec {
                name: "3v-from-boot".into(),
                opts: three.clone(),
                menu: menu.clone(),
                prefix: vec![],
                max_depth: if quick { 9 } else { 13 },
                max_devs: if quick { 2 } else { 3 },
            }];
            runs.push(RunSpec {
                name: "3v-leader1-elected".into(),
                opts: three.clone(),
                menu: menu.clone(),
                prefix: elect(1, &[1, 2, 3]),
                max_depth: if quick { 8 } else { 12 },
                max_devs: if quick { 2 } else { 3 },
            });
            if !quick {
                let mut five = three.clone();
                five.voters = vec![1, 2, 3, 4, 5];
                let mut m5 = menu.clone();
                m5.max_crashes = 0;
                m5.stops = false;
                m5.crashes = vec![];
                runs.push(RunSpec {
                    name: "5v-from-boot".into(),
                    opts: five,
                    menu: m5,
                    prefix: vec![],
                    max_depth: 11,
                    max_devs: 2,
                });
            }
            Some(Check { runs, budget_s: if quick { 50 } else { 900 } })
        }
        _ => None,
    }
}

pub fn replay_file(property: &str, path: &str, out: &mut std::fs::File) -> i32 {
    let text = match std::fs::read_to_string(path) {
        Ok(t) => t,
        Err(e) => {
            let _ = writeln!(out, "MACHINERY-ERROR cannot read {path}: {e}");
            return 2;
        }
    };
    let v: serde_json::Value = match serde_json::from_str(&text) {
        Ok(v) => v,
        Err(e) => {
            let _ = writeln!(out, "MACHINERY-ERROR cannot parse {path}: {e}");
            return 2;
        }
    };
    let opts: Opts = if v["opts"].is_null() {
        Opts::default()
    } else {
        match serde_json::from_value(v["opts"].clone()) {
        Ok(o) => o,
        Err(e) => {
            let _ = writeln!(out, "MACHINERY-ERROR bad opts in {path}: {e}");
            return 2;
        }
        }
    };
    let events: Vec<Event> = match serde_json::from_value(v["events"].clone()) {
        Ok(o) => o,
        Err(e) => {
            let _ = writeln!(out, "MACHINERY-ERROR bad events in {path}: {e}");
            return 2;
        }
    };
    match crate::runner::replay(&opts, &events) {
        Ok(vs) => {
            let mine: Vec<_> = vs.iter().filter(|x| x.property == property).collect();
            for x in &vs {
                let _ = writeln!(out, "  [{}] {}", x.property, x.what);
            }
            if mine.is_empty() {
                let _ = writeln!(out, "replay of {path}: property {property} held");
                0
            } else {
                let _ = writeln!(out, "VIOLATION property={property} replay={path}");
                1
            }
        }
        Err(e) => {
            let _ = writeln!(out, "MACHINERY-ERROR replay of {path}: {e}");
            2
        }
    }
}
