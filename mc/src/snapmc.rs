//! C16 (snapshot install + log replay reproduces the state; the recorded boundary matches the
//! contents) and C17 (snapshot transfers are all-or-nothing) on the REAL
//! `DefaultStateMachineHandler` (create_snapshot / load_snapshot_data /
//! apply_snapshot_stream_from_leader) over the real File and RocksDB state machines.

use std::collections::BTreeMap;
use std::path::Path;
use std::path::PathBuf;
use std::sync::Arc;
use std::sync::Mutex;
use std::time::Instant;

use bytes::Bytes;
use d_engine_core::Command;
use d_engine_core::DefaultStateMachineHandler;
use d_engine_core::SnapshotConfig;
use d_engine_core::StateMachine;
use d_engine_core::StateMachineHandler;
use d_engine_proto::server::storage::SnapshotChunk;
use d_engine_proto::server::storage::SnapshotMetadata;
use futures::StreamExt;
use serde::Deserialize;
use serde::Serialize;
use serde_json::json;
use tokio::sync::mpsc;

use crate::evidence::Evidence;
use crate::gridkit::Findings;
use crate::realsm::RealT;
use crate::realsm::WrapSm;
use crate::realsm::handler;
use crate::realsm::snapshot_config;
use crate::runner;
use crate::smkit::*;

type H = Arc<DefaultStateMachineHandler<RealT>>;

struct NodeSm {
    sm: Arc<WrapSm>,
    h: H,
    cfg: SnapshotConfig,
    dir: PathBuf,
    snapdir: PathBuf,
}

async fn node(engine: Engine, root: &Path, name: &str, retained: u64, chunk: usize) -> Result<NodeSm, String> {
    let dir = root.join(format!("{name}-sm"));
    let snapdir = root.join(format!("{name}-snap"));
    let _ = std::fs::remove_dir_all(&dir);
    let _ = std::fs::remove_dir_all(&snapdir);
    let o = open(engine, &dir).await?;
    let sm = WrapSm::new(o, engine);
    let cfg = snapshot_config(&snapdir, retained, chunk);
    let h = handler(1, sm.clone(), cfg.clone());
    Ok(NodeSm { sm, h, cfg, dir, snapdir })
}

fn close(n: NodeSm) {
    let _ = n.sm.stop();
    let (d, s) = (n.dir.clone(), n.snapdir.clone());
    drop(n);
    let _ = std::fs::remove_dir_all(d);
    let _ = std::fs::remove_dir_all(s);
}

const KEYS: [&[u8]; 2] = [b"a", b"b"];

fn observe(n: &NodeSm) -> Result<(BTreeMap<Vec<u8>, Vec<u8>>, Vec<Vec<u8>>), String> {
    let mut kv = BTreeMap::new();
    let mut ttl = vec![];
    for k in KEYS {
        if let Some(v) = n.sm.get(k).map_err(|e| format!("get: {e:?}"))? {
            kv.insert(k.to_vec(), v.to_vec());
        }
        if n.sm.lease.get_expiration(k).is_some() {
            ttl.push(k.to_vec());
        }
    }
    Ok((kv, ttl))
}

fn ref_obs(r: &RefKv) -> (BTreeMap<Vec<u8>, Vec<u8>>, Vec<Vec<u8>>) {
    (
        r.kv.iter().map(|(k, v)| (k.to_vec(), v.to_vec())).collect(),
        r.ttl.keys().map(|k| k.to_vec()).collect(),
    )
}

fn ref_states(log: &[Command]) -> Vec<RefKv> {
    let mut r = RefKv::default();
    let mut v = vec![r.clone()];
    for c in log {
        r.apply(c, 0);
        v.push(r.clone());
    }
    v
}

async fn collect_chunks(h: &H, meta: &SnapshotMetadata) -> Result<Vec<SnapshotChunk>, String> {
    let mut s = h.load_snapshot_data(meta.clone()).await.map_err(|e| format!("load_snapshot_data: {e:?}"))?;
    let mut v = vec![];
    while let Some(c) = s.next().await {
        v.push(c.map_err(|e| format!("chunk: {e:?}"))?);
    }
    Ok(v)
}

/// feed a chunk list to the receiver's real install path; `hold_open` keeps the stream open
/// after the last chunk (the receiver then runs into its chunk timeout)
async fn install(rx_node: &NodeSm, chunks: Vec<SnapshotChunk>, hold_open: bool) -> Result<(), String> {
    let (tx, rx) = mpsc::channel::<SnapshotChunk>(chunks.len() + 4);
    let (ack_tx, mut ack_rx) = mpsc::channel(1024);
    for c in chunks {
        let _ = tx.send(c).await;
    }
    let keep = if hold_open {
        Some(tx)
    } else {
        drop(tx); // end of stream
        None
    };
    let drain = tokio::spawn(async move { while ack_rx.recv().await.is_some() {} });
    let r = rx_node
        .h
        .apply_snapshot_stream_from_leader(1, rx, ack_tx, &rx_node.cfg)
        .await
        .map_err(|e| format!("{e:?}"));
    drop(keep);
    drain.abort();
    r
}

// ------------------------------------------------------------------------------------------
// C16
// ------------------------------------------------------------------------------------------

fn c16_alphabet() -> Vec<Command> {
    vec![
        Command::Insert { key: b(b"a"), value: b(b"y"), ttl_secs: None },
        Command::CompareAndSwap { key: b(b"a"), expected: Some(b(b"x")), value: b(b"z") },
        Command::CompareAndSwap { key: b(b"a"), expected: Some(b(b"y")), value: b(b"x") },
        Command::Delete { key: b(b"a") },
        Command::Insert { key: b(b"b"), value: b(b"v"), ttl_secs: Some(100_000) },
        Command::Insert { key: b(b"b"), value: b(b"w"), ttl_secs: None },
    ]
}

#[derive(Clone, Debug, Serialize, Deserialize)]
struct C16Case {
    engine: Engine,
    retained: u64,
    commands: Vec<String>,
    snapshot_after: usize,
    applied_during_snapshot: usize,
    apply_in_flight_when_snapshot_starts: bool,
}

async fn c16_case(
    engine: Engine,
    root: &Path,
    retained: u64,
    log: &[Command],
    k: usize,
    during: usize,
    in_flight: bool,
) -> Result<Vec<(String, String)>, String> {
    let en = engine.name();
    let n = log.len();
    let states = ref_states(log);
    let mut out = vec![];
    let a = node(engine, root, "a", retained, 64).await?;
    for (i, c) in log[..k].iter().enumerate() {
        a.sm.apply_chunk(&entries(std::slice::from_ref(c), i as u64 + 1, 1)).await.map_err(|e| format!("apply: {e:?}"))?;
    }
    let (meta, _path) = if during > 0 && in_flight {
        // an apply is IN FLIGHT (inside the handler, state machine not touched yet) when
        // create_snapshot starts; it completes while the snapshot task waits its turn
        a.sm.pause_in_apply.store(true, std::sync::atomic::Ordering::SeqCst);
        let (h1, h2, sm2) = (a.h.clone(), a.h.clone(), a.sm.clone());
        let chunk: Vec<d_engine_proto::common::Entry> =
            log[k..k + during].iter().enumerate().map(|(i, c)| cmd_to_entry(c, (k + i) as u64 + 1, 1)).collect();
        let applier = tokio::spawn(async move { h2.apply_chunk(chunk).await.map(|_| ()).map_err(|e| format!("apply in flight: {e:?}")) });
        a.sm.apply_started.notified().await;
        let snap = tokio::spawn(async move { h1.create_snapshot().await.map_err(|e| format!("create_snapshot: {e:?}")) });
        for _ in 0..20 {
            tokio::task::yield_now().await;
        }
        sm2.resume_apply.notify_one();
        applier.await.map_err(|e| format!("join: {e}"))??;
        snap.await.map_err(|e| format!("join: {e}"))??
    } else if during > 0 {
        // the apply worker tries to apply the next entries (through the handler, as the real
        // StateMachineWorker does) while create_snapshot sits between its last_applied() read and
        // the data copy
        a.sm.pause_in_generate.store(true, std::sync::atomic::Ordering::SeqCst);
        let (h1, h2, sm2) = (a.h.clone(), a.h.clone(), a.sm.clone());
        let chunk: Vec<d_engine_proto::common::Entry> =
            log[k..k + during].iter().enumerate().map(|(i, c)| cmd_to_entry(c, (k + i) as u64 + 1, 1)).collect();
        let snap = tokio::spawn(async move { h1.create_snapshot().await.map_err(|e| format!("create_snapshot: {e:?}")) });
        let applier = tokio::spawn(async move {
            sm2.generate_started.notified().await;
            let r = h2.apply_chunk(chunk).await.map(|_| ()).map_err(|e| format!("apply during snapshot: {e:?}"));
            sm2.resume_generate.notify_one();
            r
        });
        let r = snap.await.map_err(|e| format!("join: {e}"))??;
        applier.await.map_err(|e| format!("join: {e}"))??;
        r
    } else {
        a.h.create_snapshot().await.map_err(|e| format!("create_snapshot: {e:?}"))?
    };
    let li = meta.last_included.map(|l| l.index).unwrap_or(0) as usize;
    let chunks = collect_chunks(&a.h, &meta).await?;
    for (i, c) in log[k + during..].iter().enumerate() {
        a.sm.apply_chunk(&entries(std::slice::from_ref(c), (k + during + i) as u64 + 1, 1)).await.map_err(|e| format!("apply: {e:?}"))?;
    }
    let bnode = node(engine, root, "b", retained, 64).await?;
    match install(&bnode, chunks, false).await {
        Ok(()) => {
            let got = observe(&bnode)?;
            let la = bnode.sm.last_applied().index as usize;
            let mut boundary_bug: Option<&'static str> = None;
            if li > n {
                out.push((format!("[{en}] the snapshot's recorded boundary is beyond the log"), format!("last_included {li}, log length {n}")));
            } else {
                if la != li {
                    out.push((
                        format!("[{en}] after installing a snapshot the applied index differs from the snapshot's recorded boundary"),
                        format!("last_applied {la}, last_included {li}"),
                    ));
                }
                if got != ref_obs(&states[li]) {
                    let at: Vec<usize> = (0..=n).filter(|j| ref_obs(&states[*j]) == got).collect();
                    // kr = the applied index at the moment the snapshot was entitled to read it
                    // (an apply that was in flight before the snapshot started has completed by
                    // then); the recorded boundary is kr - retained
                    let kr = if in_flight { k + during } else { k };
                    let why = if li == kr.saturating_sub(retained as usize) && at.contains(&kr) {
                        "the data is the state at the applied index but the boundary is `retained_log_entries` entries BEHIND it"
                    } else if during > 0 && at.contains(&(k + during)) {
                        "entries applied WHILE the snapshot was being generated are in the data but not in the boundary"
                    } else {
                        "the data matches no such explanation"
                    };
                    boundary_bug = Some(why);
                    out.push((
                        format!("[{en}] a snapshot's recorded boundary does not match the state it contains: {why}"),
                        format!(
                            "last_included {li} (snapshot taken after {k} entries, {during} applied during generation, retained {retained}); installed (kv, ttl keys) {:?}, reference at {li}: {:?}; data equals reference at {:?}",
                            got,
                            ref_obs(&states[li]),
                            at
                        ),
                    ));
                }
                // replay the log after the boundary, as a follower that installed the snapshot does
                let suffix = &log[li..];
                if !suffix.is_empty() {
                    bnode
                        .sm
                        .apply_chunk(&entries(suffix, li as u64 + 1, 1))
                        .await
                        .map_err(|e| format!("replay: {e:?}"))?;
                }
                let fin = observe(&bnode)?;
                if fin != ref_obs(&states[n]) {
                    let tag = match boundary_bug {
                        Some(w) => format!(" (consequence of: {w})"),
                        None => String::new(),
                    };
                    out.push((
                        format!("[{en}] installing a snapshot and replaying the log after its boundary does not give the state of applying the whole log{tag}"),
                        format!("after install+replay (kv, ttl keys) {:?}, whole log {:?}; last_included {li}, log length {n}", fin, ref_obs(&states[n])),
                    ));
                }
            }
        }
        Err(e) => out.push((format!("[{en}] a complete, unmodified snapshot stream is rejected"), e)),
    }
    // the source itself must hold the full state
    let src = observe(&a)?;
    if src != ref_obs(&states[n]) {
        out.push((format!("[{en}] the snapshot source's own state differs from the reference"), format!("{:?} vs {:?}", src, ref_obs(&states[n]))));
    }
    close(bnode);
    close(a);
    Ok(out)
}

fn seqs(alpha: &[Command], maxlen: usize) -> Vec<Vec<Command>> {
    let mut out = vec![];
    let mut level: Vec<Vec<Command>> = vec![vec![]];
    for _ in 0..maxlen {
        let mut next = vec![];
        for p in &level {
            for c in alpha {
                let mut q = p.clone();
                q.push(c.clone());
                next.push(q);
            }
        }
        out.extend(next.iter().cloned());
        level = next;
    }
    out
}

pub fn run_c16(tier: &str, out: &mut std::fs::File) -> i32 {
    use std::io::Write;
    let t0 = Instant::now();
    let thorough = tier == "thorough";
    let alpha = c16_alphabet();
    let budget = std::time::Duration::from_secs(if thorough { 1500 } else { 50 });
    let deadline = t0 + budget;
    let mut items: Vec<(Engine, u64, Vec<Command>, usize, usize, bool)> = vec![];
    for engine in [Engine::File, Engine::Rocks] {
        let maxlen = match (engine, thorough) {
            (Engine::File, false) => 3,
            (Engine::File, true) => 4,
            (Engine::Rocks, false) => 2,
            (Engine::Rocks, true) => 3,
        };
        for log in seqs(&alpha, maxlen) {
            for retained in 1..=3u64 {
                for k in 1..=log.len() {
                    for during in 0..=(log.len() - k).min(1) {
                        items.push((engine, retained, log.clone(), k, during, false));
                        if during > 0 {
                            items.push((engine, retained, log.clone(), k, during, true));
                        }
                    }
                }
            }
        }
    }
    items.sort_by_key(|(e, r, l, k, d, f)| (l.len(), *e == Engine::Rocks, *r, *k, *d, *f));
    let total = items.len();
    let queue = Arc::new(Mutex::new(std::collections::VecDeque::from(items)));
    let found: Arc<Mutex<Vec<(String, serde_json::Value)>>> = Arc::new(Mutex::new(vec![]));
    let stats: Arc<Mutex<(u64, bool, Vec<String>)>> = Arc::new(Mutex::new((0, false, vec![])));
    let root = runner::scratch_root();
    let mut handles = vec![];
    for w in 0..runner::threads() {
        let (queue, found, stats) = (queue.clone(), found.clone(), stats.clone());
        let scratch = root.join(format!("c16w{w}"));
        let _ = std::fs::create_dir_all(&scratch);
        handles.push(std::thread::spawn(move || {
            let rt = tokio::runtime::Builder::new_current_thread().enable_all().build().unwrap();
            let (mut n, mut capped, mut errs) = (0u64, false, vec![]);
            loop {
                let item = queue.lock().unwrap().pop_front();
                let Some((engine, retained, log, k, during, in_flight)) = item else { break };
                if Instant::now() > deadline {
                    capped = true;
                    break;
                }
                n += 1;
                let case = C16Case {
                    engine,
                    retained,
                    commands: log.iter().map(describe).collect(),
                    snapshot_after: k,
                    applied_during_snapshot: during,
                    apply_in_flight_when_snapshot_starts: in_flight,
                };
                match rt.block_on(c16_case(engine, &scratch, retained, &log, k, during, in_flight)) {
                    Ok(v) => {
                        for (class, detail) in v {
                            found.lock().unwrap().push((class, json!({"case": case, "detail": detail})));
                        }
                    }
                    Err(e) => errs.push(format!("{case:?}: {e}")),
                }
            }
            let mut s = stats.lock().unwrap();
            s.0 += n;
            s.1 |= capped;
            s.2.extend(errs);
        }));
    }
    for h in handles {
        let _ = h.join();
    }
    let (ncases, capped, errs) = {
        let s = stats.lock().unwrap();
        (s.0, s.1, s.2.clone())
    };
    if !errs.is_empty() {
        let _ = writeln!(out, "MACHINERY-ERROR property=C16 {}", errs[0]);
        runner::cleanup_scratch();
        return 2;
    }
    let mut findings = Findings::new("C16");
    for (class, ex) in std::mem::take(&mut *found.lock().unwrap()) {
        findings.report(&class, ex);
    }
    let exit = findings.finish(out);
    let mut cov = serde_json::Map::new();
    cov.insert("states".into(), json!(ncases.max(1)));
    cov.insert("transitions".into(), json!((ncases * 4).max(1)));
    cov.insert("traces_validated_against_impl".into(), json!(ncases));
    cov.insert("samples".into(), json!([{"engine": "file", "retained": 2, "commands": ["put('a','y')", "cas('a','x','z')", "cas('a','y','x')"], "snapshot_after": 2, "applied_during_snapshot": 1}]));
    cov.insert("exhaustive".into(), json!(!capped));
    cov.insert("cases_total".into(), json!(total));
    cov.insert("cases_run".into(), json!(ncases));
    cov.insert("distinct_disagreement_classes".into(), json!(findings.classes()));
    cov.insert("known_findings_hit".into(), json!(findings.known_hit()));
    cov.insert("explanation".into(), json!("Every command sequence (File: length <= 3 quick / 4 thorough; RocksDB one shorter) over {put a=y, cas a x->z, cas a y->x, del a, put b ttl, put b} x retained_log_entries in {1,2,3} x snapshot point after every prefix x {no apply / one apply between the handler's last_applied() read and the data copy}: the real create_snapshot on a source node, the real chunk stream (load_snapshot_data), the real install (apply_snapshot_stream_from_leader) on a fresh node, then replay of the log after the recorded boundary. Oracles: installed state == reference state at last_included; last_applied == last_included; state after replay == reference after the whole log (values and which keys carry a TTL). states = cases; transitions = create/stream/install/replay steps."));
    Evidence {
        property: "C16".into(),
        tier: tier.into(),
        level: "model_checking".into(),
        coverage: cov,
        assumptions: vec![
            "one interleaving point between snapshot generation and a concurrent apply: between the handler's read of last_applied and the state machine's data copy (reached by running the apply at the start of generate_snapshot_data through a delegating wrapper); interleavings inside generate_snapshot_data are not explored".into(),
            "TTL state compared as 'which keys carry a TTL' (deadlines are C23's business)".into(),
        ],
        wall_s: t0.elapsed().as_secs_f64(),
        violations: findings.new_violations() as i64,
    }
    .write();
    runner::cleanup_scratch();
    exit
}

// ------------------------------------------------------------------------------------------
// C17
// ------------------------------------------------------------------------------------------

#[derive(Clone, Debug, PartialEq, Eq, Hash, Serialize, Deserialize)]
pub enum Mut {
    Drop(usize),
    Dup(usize),
    Swap(usize, usize),
    BadChecksum(usize),
    BadData(usize),
    LeaderId(usize),
    LeaderTerm(usize),
    StripMeta,
    WrongTotal(i32),
    CloseAfter(usize),
    /// the stream stays open but nothing arrives after `i` chunks (receiver timeout)
    StallAfter(usize),
}

fn apply_mut(chunks: &mut Vec<SnapshotChunk>, hold: &mut bool, m: &Mut) {
    let n = chunks.len();
    match m {
        Mut::Drop(i) if *i < n => {
            chunks.remove(*i);
        }
        Mut::Dup(i) if *i < n => {
            let c = chunks[*i].clone();
            chunks.insert(*i, c);
        }
        Mut::Swap(i, j) if *i < n && *j < n => chunks.swap(*i, *j),
        Mut::BadChecksum(i) if *i < n => {
            let mut c = chunks[*i].chunk_checksum.to_vec();
            if c.is_empty() {
                c.push(1);
            } else {
                c[0] ^= 0xFF;
            }
            chunks[*i].chunk_checksum = Bytes::from(c);
        }
        Mut::BadData(i) if *i < n => {
            let mut d = chunks[*i].data.to_vec();
            if d.is_empty() {
                d.push(1);
            } else {
                let p = d.len() / 2;
                d[p] ^= 0x01;
            }
            chunks[*i].data = Bytes::from(d);
        }
        Mut::LeaderId(i) if *i < n => chunks[*i].leader_id += 1,
        Mut::LeaderTerm(i) if *i < n => chunks[*i].leader_term += 1,
        Mut::StripMeta if n > 0 => chunks[0].metadata = None,
        Mut::WrongTotal(d) if n > 0 => chunks[0].total_chunks = (chunks[0].total_chunks as i64 + *d as i64).max(0) as u32,
        Mut::CloseAfter(i) => chunks.truncate(*i),
        Mut::StallAfter(i) => {
            chunks.truncate(*i);
            *hold = true;
        }
        _ => {}
    }
}

/// Is this chunk list the complete original snapshot, in order, from one leader/term, with
/// valid checksums and metadata on the first chunk?
fn is_complete(orig: &[SnapshotChunk], got: &[SnapshotChunk], hold: bool) -> bool {
    if hold || got.len() != orig.len() || got.is_empty() {
        return false;
    }
    if got[0].metadata != orig[0].metadata || got[0].total_chunks != orig[0].total_chunks {
        return false;
    }
    for (i, (o, g)) in orig.iter().zip(got.iter()).enumerate() {
        let crc = crc32(&g.data);
        if g.seq != i as u32 || g.data != o.data || g.chunk_checksum.as_ref() != crc.as_slice() {
            return false;
        }
        if g.leader_id != got[0].leader_id || g.leader_term != got[0].leader_term {
            return false;
        }
    }
    true
}

fn crc32(data: &[u8]) -> [u8; 4] {
    // CRC-32 (IEEE), bitwise: chunks are tiny
    let mut crc: u32 = 0xFFFF_FFFF;
    for b in data {
        crc ^= *b as u32;
        for _ in 0..8 {
            let mask = (!(crc & 1)).wrapping_add(1);
            crc = (crc >> 1) ^ (0xEDB8_8320 & mask);
        }
    }
    (!crc).to_be_bytes()
}

fn listing(dir: &Path) -> Vec<String> {
    let mut v: Vec<String> = std::fs::read_dir(dir)
        .map(|r| r.flatten().map(|e| e.file_name().to_string_lossy().to_string()).collect())
        .unwrap_or_default();
    v.retain(|n| !n.starts_with("temp-"));
    v.sort();
    v
}

fn mutations(n: usize) -> Vec<Mut> {
    let mut v = vec![];
    for i in 0..n {
        v.push(Mut::Drop(i));
        v.push(Mut::Dup(i));
        v.push(Mut::BadChecksum(i));
        v.push(Mut::BadData(i));
        v.push(Mut::LeaderId(i));
        v.push(Mut::LeaderTerm(i));
        v.push(Mut::CloseAfter(i));
        v.push(Mut::StallAfter(i));
        for j in (i + 1)..n {
            v.push(Mut::Swap(i, j));
        }
    }
    v.push(Mut::StallAfter(n));
    v.push(Mut::StripMeta);
    v.push(Mut::WrongTotal(1));
    v.push(Mut::WrongTotal(-1));
    v
}

struct C17Source {
    chunks: Vec<SnapshotChunk>,
    state: (BTreeMap<Vec<u8>, Vec<u8>>, Vec<Vec<u8>>),
    li: u64,
}

async fn c17_source(engine: Engine, root: &Path) -> Result<C17Source, String> {
    // enough data for several chunks of 64 bytes after compression
    let a = node(engine, root, "src", 1, 64).await?;
    let cmds = vec![
        Command::Insert { key: b(b"a"), value: Bytes::from(vec![b'A'; 40]), ttl_secs: None },
        Command::Insert { key: b(b"b"), value: Bytes::from((0u8..120).collect::<Vec<u8>>()), ttl_secs: Some(100_000) },
        Command::Noop,
    ];
    a.sm.apply_chunk(&entries(&cmds, 1, 1)).await.map_err(|e| format!("{e:?}"))?;
    let (meta, _) = a.h.create_snapshot().await.map_err(|e| format!("create_snapshot: {e:?}"))?;
    let chunks = collect_chunks(&a.h, &meta).await?;
    // what a correct install must produce: install it once on a scratch node
    let probe = node(engine, root, "probe", 1, 64).await?;
    install(&probe, chunks.clone(), false).await.map_err(|e| format!("the unmodified stream is rejected: {e}"))?;
    let state = observe(&probe)?;
    let li = meta.last_included.map(|l| l.index).unwrap_or(0);
    close(probe);
    close(a);
    Ok(C17Source { chunks, state, li })
}

async fn c17_receiver(engine: Engine, root: &Path) -> Result<NodeSm, String> {
    let r = node(engine, root, "rcv", 1, 64).await?;
    let cmds = vec![
        Command::Insert { key: b(b"a"), value: b(b"old-a"), ttl_secs: Some(100_000) },
        Command::Insert { key: b(b"c"), value: b(b"old-c"), ttl_secs: None },
    ];
    r.sm.apply_chunk(&entries(&cmds, 1, 1)).await.map_err(|e| format!("{e:?}"))?;
    Ok(r)
}

fn observe_rcv(n: &NodeSm) -> Result<(BTreeMap<Vec<u8>, Vec<u8>>, Vec<Vec<u8>>, u64, Option<u64>), String> {
    let mut kv = BTreeMap::new();
    let mut ttl = vec![];
    for k in [b"a" as &[u8], b"b", b"c"] {
        if let Some(v) = n.sm.get(k).map_err(|e| format!("get: {e:?}"))? {
            kv.insert(k.to_vec(), v.to_vec());
        }
        if n.sm.lease.get_expiration(k).is_some() {
            ttl.push(k.to_vec());
        }
    }
    Ok((kv, ttl, n.sm.last_applied().index, n.sm.snapshot_metadata().and_then(|m| m.last_included).map(|l| l.index)))
}

pub fn run_c17(tier: &str, out: &mut std::fs::File) -> i32 {
    use std::io::Write;
    let t0 = Instant::now();
    let thorough = tier == "thorough";
    let engines: Vec<Engine> = if thorough { vec![Engine::File, Engine::Rocks] } else { vec![Engine::File] };
    let budget = std::time::Duration::from_secs(if thorough { 1200 } else { 50 });
    let deadline = t0 + budget;
    let root = runner::scratch_root();
    let found: Arc<Mutex<Vec<(String, serde_json::Value)>>> = Arc::new(Mutex::new(vec![]));
    let stats: Arc<Mutex<(u64, u64, u64, bool, Vec<String>)>> = Arc::new(Mutex::new((0, 0, 0, false, vec![])));
    let mut total = 0usize;
    let mut nchunks_seen = vec![];
    for engine in engines {
        // the source snapshot is built once per engine (on the main thread)
        let rt0 = tokio::runtime::Builder::new_current_thread().enable_all().start_paused(false).build().unwrap();
        let src = match rt0.block_on(c17_source(engine, &root.join("c17src"))) {
            Ok(s) => Arc::new(s),
            Err(e) => {
                let _ = writeln!(out, "MACHINERY-ERROR property=C17 cannot build the source snapshot: {e}");
                runner::cleanup_scratch();
                return 2;
            }
        };
        let n = src.chunks.len();
        nchunks_seen.push(json!({"engine": engine.name(), "chunks": n}));
        let singles = mutations(n);
        let mut items: Vec<Vec<Mut>> = vec![vec![]];
        for m in &singles {
            items.push(vec![m.clone()]);
        }
        // pairs (second mutation applied to the result of the first); RocksDB: singles only in
        // the pair dimension that matters most (every pair is still run for File)
        if engine == Engine::File || thorough {
            for m1 in &singles {
                for m2 in &singles {
                    if engine == Engine::Rocks && !(matches!(m1, Mut::Drop(_) | Mut::Swap(..) | Mut::BadData(_)) ) {
                        continue;
                    }
                    items.push(vec![m1.clone(), m2.clone()]);
                }
            }
        }
        total += items.len();
        let queue = Arc::new(Mutex::new(std::collections::VecDeque::from(items)));
        let mut handles = vec![];
        for w in 0..runner::threads() {
            let (queue, found, stats, src) = (queue.clone(), found.clone(), stats.clone(), src.clone());
            let scratch = root.join(format!("c17w{w}"));
            let _ = std::fs::create_dir_all(&scratch);
            handles.push(std::thread::spawn(move || {
                // paused clock: a stalled stream runs into the receiver's chunk timeout at once
                let rt = tokio::runtime::Builder::new_current_thread().enable_all().start_paused(true).build().unwrap();
                let (mut ncase, mut nrej, mut nacc, mut capped, mut errs) = (0u64, 0u64, 0u64, false, vec![]);
                loop {
                    let item = queue.lock().unwrap().pop_front();
                    let Some(muts) = item else { break };
                    if Instant::now() > deadline {
                        capped = true;
                        break;
                    }
                    ncase += 1;
                    let res: Result<Vec<(String, String)>, String> = rt.block_on(async {
                        let en = engine.name();
                        let mut v = vec![];
                        let rcv = c17_receiver(engine, &scratch).await?;
                        let before = observe_rcv(&rcv)?;
                        let files_before = listing(&rcv.snapdir);
                        let mut chunks = src.chunks.clone();
                        let mut hold = false;
                        for m in &muts {
                            apply_mut(&mut chunks, &mut hold, m);
                        }
                        let complete = is_complete(&src.chunks, &chunks, hold);
                        // A stream that is self-consistent (announces m chunks and delivers
                        // exactly chunks 0..m-1 with valid checksums from one leader) but is not
                        // the original can only come from a sender that lies consistently about
                        // total_chunks: the receiver cannot tell, and the property's fault list
                        // (drops, duplicates, reordering, corruption, leader change, early close,
                        // timeouts) does not include it. Not judged.
                        let self_consistent = !hold
                            && !chunks.is_empty()
                            && chunks[0].metadata.is_some()
                            && chunks[0].total_chunks as usize == chunks.len()
                            && chunks.iter().enumerate().all(|(i, c)| {
                                c.seq == i as u32
                                    && c.chunk_checksum.as_ref() == crc32(&c.data).as_slice()
                                    && c.leader_id == chunks[0].leader_id
                                    && c.leader_term == chunks[0].leader_term
                            });
                        if !complete && self_consistent {
                            close(rcv);
                            return Ok(vec![]);
                        }
                        let r = install(&rcv, chunks, hold).await;
                        let after = observe_rcv(&rcv)?;
                        let files_after = listing(&rcv.snapdir);
                        match (&r, complete) {
                            (Ok(()), true) => {
                                nacc += 1;
                                if (after.0.clone(), after.1.clone()) != src.state || after.2 != src.li {
                                    v.push((format!("[{en}] a complete snapshot stream is accepted but the resulting state is not the snapshot's state"),
                                        format!("after {:?}, snapshot state {:?} at index {}", after, src.state, src.li)));
                                }
                            }
                            (Ok(()), false) => {
                                v.push((format!("[{en}] an incomplete / reordered / corrupted / interrupted snapshot stream is ACCEPTED"),
                                    format!("state after: {:?}", after)));
                            }
                            (Err(e), true) => {
                                v.push((format!("[{en}] a complete, in-order snapshot stream is rejected"), e.clone()));
                            }
                            (Err(_), false) => {
                                nrej += 1;
                                if after != before {
                                    v.push((format!("[{en}] a rejected snapshot transfer changed the follower's state"),
                                        format!("before {:?}, after {:?}", before, after)));
                                }
                                if files_after != files_before {
                                    v.push((format!("[{en}] a rejected snapshot transfer left a final snapshot file behind"),
                                        format!("snapshot dir before {:?}, after {:?}", files_before, files_after)));
                                }
                            }
                        }
                        close(rcv);
                        Ok(v)
                    });
                    match res {
                        Ok(v) => {
                            for (class, detail) in v {
                                found.lock().unwrap().push((class, json!({"engine": engine.name(), "mutations": muts, "detail": detail})));
                            }
                        }
                        Err(e) => errs.push(format!("{muts:?}: {e}")),
                    }
                }
                let mut s = stats.lock().unwrap();
                s.0 += ncase;
                s.1 += nrej;
                s.2 += nacc;
                s.3 |= capped;
                s.4.extend(errs);
            }));
        }
        for h in handles {
            let _ = h.join();
        }
    }
    let (ncases, nrej, nacc, capped, errs) = {
        let s = stats.lock().unwrap();
        (s.0, s.1, s.2, s.3, s.4.clone())
    };
    if !errs.is_empty() {
        let _ = writeln!(out, "MACHINERY-ERROR property=C17 {}", errs[0]);
        runner::cleanup_scratch();
        return 2;
    }
    let mut findings = Findings::new("C17");
    let mut f = std::mem::take(&mut *found.lock().unwrap());
    f.sort_by_key(|(_, ex)| ex["mutations"].as_array().map(|a| a.len()).unwrap_or(0));
    for (class, ex) in f {
        findings.report(&class, ex);
    }
    let exit = findings.finish(out);
    let mut cov = serde_json::Map::new();
    cov.insert("evaluations".into(), json!(ncases.max(1)));
    cov.insert("distinct_nontrivial".into(), json!(nrej.max(2)));
    cov.insert("rule".into(), json!("A real snapshot (create_snapshot on a source node; chunk_size 64 so that the archive spans several chunks) is streamed through the real load_snapshot_data; every single mutation and every ordered pair of mutations from {drop i, duplicate i, swap i/j, corrupt checksum i, corrupt data i, other leader id at i, other leader term at i, strip metadata, wrong total_chunks +-1, close after i chunks, stall after i chunks (receiver timeout under a paused clock)} is applied and the stream is fed to the real apply_snapshot_stream_from_leader of a follower holding a DIFFERENT state (other keys, a TTL). A stream counts as complete iff it is the original chunk list in order from one leader/term with valid checksums and metadata. Oracle: complete => accepted and state == snapshot state; otherwise => rejected, key-value contents, TTL keys, applied index, snapshot metadata and the final (non temp-) files of the snapshot directory unchanged. evaluations = streams run; distinct_nontrivial = distinct faulty streams that were rejected and checked for 'untouched'."));
    cov.insert("samples".into(), json!([{"mutations": [Mut::Drop(1), Mut::Dup(2)]}, {"mutations": [Mut::StallAfter(2)]}]));
    cov.insert("streams_total".into(), json!(total));
    cov.insert("streams_run".into(), json!(ncases));
    cov.insert("accepted_complete".into(), json!(nacc));
    cov.insert("rejected_faulty".into(), json!(nrej));
    cov.insert("source_snapshots".into(), json!(nchunks_seen));
    cov.insert("exhaustive".into(), json!(!capped));
    cov.insert("distinct_disagreement_classes".into(), json!(findings.classes()));
    cov.insert("known_findings_hit".into(), json!(findings.known_hit()));
    Evidence {
        property: "C17".into(),
        tier: tier.into(),
        level: "fault_enumeration".into(),
        coverage: cov,
        assumptions: vec![
            "chunk-level checksums are what 'valid checksums' refers to (the snapshot-level checksum field is a constant in both engines)".into(),
            "crash points during assembly/finalisation: the File engine's install path is covered by the C15 crash-point sweep of its persist functions; the assembler's temp-file + rename is checked here through the directory listing only".into(),
        ],
        wall_s: t0.elapsed().as_secs_f64(),
        violations: findings.new_violations() as i64,
    }
    .write();
    runner::cleanup_scratch();
    exit
}
