//! C24: watch streams deliver committed changes in order with no silent gaps.
//! Real `WatchRegistry`, real `WatchDispatcher::run` (a task on a paused runtime), fed by the real
//! `DefaultStateMachineHandler::apply_chunk` broadcast. Every action sequence up to the bound is
//! executed; afterwards everything in flight is dispatched and every watcher drained.

use std::sync::Arc;
use std::sync::Mutex;
use std::sync::atomic::AtomicU64;
use std::sync::atomic::AtomicUsize;
use std::time::Instant;

use bytes::Bytes;
use d_engine_core::Command;
use d_engine_core::DefaultStateMachineHandler;
use d_engine_core::LogSizePolicy;
use d_engine_core::RaftNodeConfig;
use d_engine_core::StateMachineHandler;
use d_engine_core::WatchDispatcher;
use d_engine_core::WatchEventType;
use d_engine_core::WatchRegistry;
use d_engine_core::WatcherHandle;
use serde::Deserialize;
use serde::Serialize;
use serde_json::json;

use crate::evidence::Evidence;
use crate::gridkit::Findings;
use crate::runner;
use crate::simkit::node::SimT;
use crate::simkit::sm::Observer;
use crate::simkit::sm::RefKv;
use crate::simkit::sm::SimStateMachine;
use crate::simkit::sm::SmImage;
use crate::smkit::cmd_to_entry;

#[derive(Clone, Debug, PartialEq, Eq, Hash, Serialize, Deserialize)]
pub enum WOp {
    /// apply batch number k of the batch alphabet as ONE chunk
    Apply(usize),
    /// let the dispatcher task run until it is idle
    Dispatch,
    /// watcher i takes every event currently in its channel
    Drain(usize),
    /// watcher i takes one event
    Recv(usize),
    RegisterExact,
    RegisterPrefix,
    /// watcher i goes away (handle dropped)
    DropWatcher(usize),
    /// the dispatcher's heartbeat timer fires (progress events)
    Heartbeat,
}

fn b(s: &str) -> Bytes {
    Bytes::from(s.to_string())
}

fn batches() -> Vec<Vec<Command>> {
    vec![
        vec![Command::Insert { key: b("/a"), value: b("1"), ttl_secs: None }],
        vec![Command::Delete { key: b("/a") }],
        vec![Command::Insert { key: b("/a/b"), value: b("2"), ttl_secs: None }],
        vec![Command::CompareAndSwap { key: b("/a"), expected: Some(b("nope")), value: b("x") }],
        vec![Command::CompareAndSwap { key: b("/a"), expected: None, value: b("3") }],
        vec![
            Command::Insert { key: b("/a"), value: b("4"), ttl_secs: None },
            Command::Insert { key: b("/a/b"), value: b("5"), ttl_secs: None },
            Command::Insert { key: b("/a"), value: b("6"), ttl_secs: None },
        ],
        vec![Command::Insert { key: b("/b"), value: b("7"), ttl_secs: None }],
    ]
}

const EXACT_KEY: &str = "/a";
const PREFIX_KEY: &str = "/a/";

#[derive(Clone, Debug, PartialEq)]
struct Mutation {
    revision: u64,
    key: Vec<u8>,
    put: bool,
    value: Vec<u8>,
}

struct W {
    handle: Option<WatcherHandle>,
    prefix: bool,
    /// applied index at registration: mutations with a larger revision must all arrive
    registered_at: u64,
    received: Vec<(String, Vec<u8>, Vec<u8>, u64)>, // (type, key, value, revision)
}

fn matches(prefix: bool, key: &[u8]) -> bool {
    if prefix { key.starts_with(PREFIX_KEY.as_bytes()) } else { key == EXACT_KEY.as_bytes() }
}

async fn quiesce() {
    tokio::time::sleep(std::time::Duration::from_millis(1)).await;
}

async fn run_sequence(ops: &[WOp], buffer: usize, heartbeat_ms: u64) -> Result<Vec<(String, String)>, String> {
    let (unreg_tx, unreg_rx) = tokio::sync::mpsc::unbounded_channel();
    let registry = Arc::new(WatchRegistry::new(buffer, unreg_tx));
    let (btx, brx) = tokio::sync::broadcast::channel(2);
    let last_applied = Arc::new(AtomicU64::new(0));
    let dispatcher = WatchDispatcher::new(registry.clone(), brx, unreg_rx, last_applied.clone(), heartbeat_ms);
    let dtask = tokio::spawn(dispatcher.run());
    let sm = Arc::new(SimStateMachine::new(Arc::new(Mutex::new(SmImage::default())), Arc::new(Observer::default()), 1));
    let cfg = RaftNodeConfig::default().raft.snapshot.clone();
    let policy = LogSizePolicy::new(1_000_000, cfg.snapshot_cool_down_since_last_check);
    let h = DefaultStateMachineHandler::<SimT>::new(1, 0, sm, cfg, policy, Some(btx), Arc::new(AtomicUsize::new(0)));
    let bs = batches();
    let mut next = 1u64;
    let mut reference = RefKv::default();
    let mut muts: Vec<Mutation> = vec![];
    let mut ws: Vec<W> = vec![];
    let mut out = vec![];
    let take = |w: &mut W, all: bool| {
        if let Some(hd) = w.handle.as_mut() {
            loop {
                match hd.receiver_mut().try_recv() {
                    Ok(e) => {
                        let t = match e.event_type {
                            WatchEventType::Put => "put",
                            WatchEventType::Delete => "delete",
                            WatchEventType::Canceled => "canceled",
                            WatchEventType::Progress => "progress",
                        };
                        w.received.push((t.to_string(), e.key.to_vec(), e.value.to_vec(), e.revision));
                        if !all {
                            break;
                        }
                    }
                    Err(_) => break,
                }
            }
        }
    };
    let mut all_ops: Vec<WOp> = ops.to_vec();
    // closure: everything in flight is dispatched, every watcher drains (twice: a drain frees
    // buffer space for events the dispatcher could not place before)
    all_ops.push(WOp::Dispatch);
    for _ in 0..2 {
        for i in 0..3 {
            all_ops.push(WOp::Drain(i));
        }
        all_ops.push(WOp::Dispatch);
    }
    for i in 0..3 {
        all_ops.push(WOp::Drain(i));
    }
    for op in &all_ops {
        match op {
            WOp::Apply(k) => {
                let cmds = &bs[*k];
                let entries: Vec<_> = cmds.iter().enumerate().map(|(i, c)| cmd_to_entry(c, next + i as u64, 1)).collect();
                let res = h.apply_chunk(entries).await.map_err(|e| format!("apply: {e:?}"))?;
                for (i, c) in cmds.iter().enumerate() {
                    let idx = next + i as u64;
                    let ok = reference.apply(c, 0);
                    if res.get(i).map(|r| r.succeeded) != Some(ok) {
                        return Err("apply result differs from the reference".into());
                    }
                    match c {
                        Command::Insert { key, value, .. } => muts.push(Mutation { revision: idx, key: key.to_vec(), put: true, value: value.to_vec() }),
                        Command::Delete { key } => muts.push(Mutation { revision: idx, key: key.to_vec(), put: false, value: vec![] }),
                        Command::CompareAndSwap { key, value, .. } if ok => muts.push(Mutation { revision: idx, key: key.to_vec(), put: true, value: value.to_vec() }),
                        _ => {}
                    }
                }
                next += cmds.len() as u64;
                last_applied.store(next - 1, std::sync::atomic::Ordering::SeqCst);
            }
            WOp::Dispatch => {
                for _ in 0..3 {
                    quiesce().await;
                }
            }
            WOp::Drain(i) => {
                if let Some(w) = ws.get_mut(*i) {
                    take(w, true);
                }
            }
            WOp::Recv(i) => {
                if let Some(w) = ws.get_mut(*i) {
                    take(w, false);
                }
            }
            WOp::RegisterExact | WOp::RegisterPrefix => {
                let prefix = *op == WOp::RegisterPrefix;
                let hd = if prefix { registry.register_prefix(b(PREFIX_KEY), false) } else { registry.register(b(EXACT_KEY), false) };
                match hd {
                    Ok(hd) => ws.push(W { handle: Some(hd), prefix, registered_at: next - 1, received: vec![] }),
                    Err(e) => return Err(format!("register: {e:?}")),
                }
            }
            WOp::DropWatcher(i) => {
                if let Some(w) = ws.get_mut(*i) {
                    w.handle = None;
                }
            }
            WOp::Heartbeat => {
                if heartbeat_ms > 0 {
                    tokio::time::advance(std::time::Duration::from_millis(heartbeat_ms + heartbeat_ms / 5 + 2)).await;
                    quiesce().await;
                }
            }
        }
    }
    dtask.abort();
    // ---- oracle per watcher
    for (wi, w) in ws.iter().enumerate() {
        let dropped = w.handle.is_none();
        let data: Vec<&(String, Vec<u8>, Vec<u8>, u64)> = w.received.iter().filter(|e| e.0 == "put" || e.0 == "delete").collect();
        let cancel_pos = w.received.iter().position(|e| e.0 == "canceled");
        let kind = if w.prefix { "prefix" } else { "exact" };
        if let Some(p) = cancel_pos {
            if p + 1 != w.received.len() {
                out.push((format!("[{kind} watcher] events arrive after CANCELED"), format!("watcher {wi}: {:?}", w.received)));
            }
        }
        let mine: Vec<&Mutation> = muts.iter().filter(|m| matches(w.prefix, &m.key)).collect();
        // every data event is a committed mutation of a matching key, verbatim
        let mut last_rev = 0u64;
        for e in &data {
            let m = mine.iter().find(|m| m.revision == e.3);
            let ok = m.map(|m| m.key == e.1 && m.put == (e.0 == "put") && (!m.put || m.value == e.2)).unwrap_or(false);
            if !ok {
                out.push((
                    format!("[{kind} watcher] an event does not correspond to a committed change of a watched key (wrong key, a failed CAS, or altered content)"),
                    format!("watcher {wi}: event {:?}; matching mutations {:?}", e, mine),
                ));
            }
            if e.3 <= last_rev {
                out.push((format!("[{kind} watcher] revisions are not strictly increasing (duplicate or reordered event)"), format!("watcher {wi}: {:?}", data)));
            }
            last_rev = e.3;
        }
        // no silent gap: among the mutations after registration, the received ones form a prefix
        // (complete unless the stream was cancelled or the watcher went away)
        let must: Vec<u64> = mine.iter().filter(|m| m.revision > w.registered_at).map(|m| m.revision).collect();
        let got: Vec<u64> = data.iter().map(|e| e.3).filter(|r| *r > w.registered_at).collect();
        let is_prefix = got.len() <= must.len() && got.iter().zip(must.iter()).all(|(a, c)| a == c);
        if !is_prefix {
            out.push((
                format!("[{kind} watcher] a change is missing between two delivered events (gap without CANCELED)"),
                format!("watcher {wi}: expected revisions {:?}, received {:?}; all events {:?}", must, got, w.received),
            ));
        } else if got.len() < must.len() && cancel_pos.is_none() && !dropped {
            out.push((
                format!("[{kind} watcher] changes were never delivered although the stream was not ended by CANCELED (silent gap)"),
                format!("watcher {wi}: expected revisions {:?}, received {:?}; all events {:?}", must, got, w.received),
            ));
        }
    }
    Ok(out)
}

fn alphabet(thorough: bool) -> Vec<WOp> {
    let mut v = vec![WOp::Apply(0), WOp::Apply(1), WOp::Apply(5), WOp::Apply(3), WOp::Dispatch, WOp::Drain(0), WOp::RegisterExact, WOp::RegisterPrefix, WOp::DropWatcher(0)];
    if thorough {
        v.extend([WOp::Apply(2), WOp::Apply(4), WOp::Apply(6), WOp::Recv(0), WOp::Drain(1), WOp::Heartbeat]);
    }
    v
}

fn sequences(alpha: &[WOp], depth: usize) -> Vec<Vec<WOp>> {
    let mut out = vec![];
    let mut level: Vec<Vec<WOp>> = vec![vec![]];
    for _ in 0..depth {
        let mut next = vec![];
        for h in &level {
            let nw = h.iter().filter(|o| matches!(o, WOp::RegisterExact | WOp::RegisterPrefix)).count();
            for op in alpha {
                let ok = match op {
                    WOp::RegisterExact | WOp::RegisterPrefix => nw < 2,
                    WOp::Drain(i) | WOp::Recv(i) | WOp::DropWatcher(i) => *i < nw,
                    WOp::Dispatch => h.last() != Some(&WOp::Dispatch),
                    _ => true,
                };
                // a sequence is only interesting once somebody watches
                if ok {
                    let mut q = h.clone();
                    q.push(op.clone());
                    next.push(q);
                }
            }
        }
        out.extend(next.iter().filter(|s| s.iter().any(|o| matches!(o, WOp::RegisterExact | WOp::RegisterPrefix))).cloned());
        level = next;
    }
    out
}

pub fn run(tier: &str, out: &mut std::fs::File) -> i32 {
    use std::io::Write;
    let t0 = Instant::now();
    let thorough = tier == "thorough";
    let alpha = alphabet(thorough);
    let depth = if thorough { 6 } else { 5 };
    let deadline = t0 + std::time::Duration::from_secs(if thorough { 1200 } else { 50 });
    let mut items: Vec<(Vec<WOp>, usize, u64)> = vec![];
    for s in sequences(&alpha, depth) {
        for buffer in [1usize, 2] {
            items.push((s.clone(), buffer, if thorough { 1000 } else { 0 }));
        }
    }
    if !thorough {
        // heartbeats (progress events) enabled, small alphabet: a stalled consumer whose buffer
        // is full when the heartbeat timer fires, then further changes
        let hb_alpha = vec![WOp::RegisterExact, WOp::Apply(0), WOp::Apply(1), WOp::Dispatch, WOp::Heartbeat, WOp::Drain(0), WOp::Recv(0)];
        for s in sequences(&hb_alpha, depth) {
            if !s.contains(&WOp::Heartbeat) {
                continue;
            }
            for buffer in [1usize, 2] {
                items.push((s.clone(), buffer, 1000));
            }
        }
    }
    items.sort_by_key(|(s, b2, _)| (s.len(), *b2));
    let total = items.len();
    let queue = Arc::new(Mutex::new(std::collections::VecDeque::from(items)));
    let found: Arc<Mutex<Vec<(String, serde_json::Value, usize)>>> = Arc::new(Mutex::new(vec![]));
    let stats: Arc<Mutex<(u64, u64, bool, Vec<String>)>> = Arc::new(Mutex::new((0, 0, false, vec![])));
    let mut handles = vec![];
    for _ in 0..runner::threads() {
        let (queue, found, stats) = (queue.clone(), found.clone(), stats.clone());
        handles.push(std::thread::spawn(move || {
            let (mut n, mut nops, mut capped, mut errs) = (0u64, 0u64, false, vec![]);
            let rt = runner::paused_rt(0);
            loop {
                let item = queue.lock().unwrap().pop_front();
                let Some((seq, buffer, hb)) = item else { break };
                if Instant::now() > deadline {
                    capped = true;
                    break;
                }
                n += 1;
                nops += seq.len() as u64;
                match rt.block_on(run_sequence(&seq, buffer, hb)) {
                    Ok(v) => {
                        for (class, detail) in v {
                            found.lock().unwrap().push((class, json!({"ops": seq, "watcher_buffer": buffer, "broadcast_capacity": 2, "detail": detail}), seq.len()));
                        }
                    }
                    Err(e) => errs.push(format!("{seq:?}: {e}")),
                }
            }
            let mut s = stats.lock().unwrap();
            s.0 += n;
            s.1 += nops;
            s.2 |= capped;
            s.3.extend(errs);
        }));
    }
    for h in handles {
        let _ = h.join();
    }
    let (nseq, nops, capped, errs) = {
        let s = stats.lock().unwrap();
        (s.0, s.1, s.2, s.3.clone())
    };
    if !errs.is_empty() {
        let _ = writeln!(out, "MACHINERY-ERROR property=C24 {}", errs[0]);
        return 2;
    }
    let mut findings = Findings::new("C24");
    let mut f = std::mem::take(&mut *found.lock().unwrap());
    f.sort_by_key(|(_, _, l)| *l);
    for (class, ex, _) in f {
        findings.report(&class, ex);
    }
    let exit = findings.finish(out);
    let mut cov = serde_json::Map::new();
    cov.insert("states".into(), json!(nseq.max(1)));
    cov.insert("transitions".into(), json!(nops.max(1)));
    cov.insert("traces_validated_against_impl".into(), json!(nseq));
    cov.insert("samples".into(), json!([{"ops": [WOp::RegisterExact, WOp::Apply(5), WOp::Dispatch, WOp::Drain(0)], "watcher_buffer": 1}]));
    cov.insert("exhaustive".into(), json!(!capped));
    cov.insert("sequences_total".into(), json!(total));
    cov.insert("sequences_run".into(), json!(nseq));
    cov.insert("depth".into(), json!(depth));
    cov.insert("alphabet".into(), json!(alpha));
    cov.insert("distinct_disagreement_classes".into(), json!(findings.classes()));
    cov.insert("known_findings_hit".into(), json!(findings.known_hit()));
    cov.insert("explanation".into(), json!("Every action sequence up to the depth (containing at least one registration; at most two watchers: exact '/a' and prefix '/a/') over {apply one chunk (put /a; delete /a; failing CAS; a three-entry chunk put /a, put /a/b, put /a - larger than the broadcast capacity of 2; thorough adds put /a/b, successful CAS, put /b), let the dispatcher run to idle, drain a watcher, register exact, register prefix, drop a watcher (thorough: receive one, heartbeat)} x watcher buffer {1,2}; the quick tier adds every sequence up to the same depth over {register exact, put /a, delete /a, dispatch, heartbeat timer fires, drain, receive one} that contains a heartbeat, with progress events enabled, on the real WatchRegistry + WatchDispatcher task fed by the real DefaultStateMachineHandler::apply_chunk; each sequence is followed by 'dispatch everything, drain everybody'. Oracle per watcher: every data event is a committed change of a watched key with its content, revisions strictly increase, nothing follows CANCELED, and the delivered revisions are a gap-free prefix of the watched changes since registration - complete unless the stream ended with CANCELED or the watcher went away."));
    Evidence {
        property: "C24".into(),
        tier: tier.into(),
        level: "model_checking".into(),
        coverage: cov,
        assumptions: vec![
            "dispatcher and producers interleave at the granularity of the listed actions (the dispatcher is a task on a paused current-thread runtime)".into(),
            "progress (heartbeat) events are only required not to follow CANCELED".into(),
        ],
        wall_s: t0.elapsed().as_secs_f64(),
        violations: findings.new_violations() as i64,
    }
    .write();
    exit
}
