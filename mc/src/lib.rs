pub mod evidence;
pub mod explore;
pub mod known;
pub mod runner;
pub mod simkit;
pub mod specs;
