//! Harness-owned wall clock: the executable defines `clock_gettime`, so every call made through
//! libc (std::time::SystemTime::now, RocksDB, tokio) resolves here. For threads that asked for
//! it, CLOCK_REALTIME is FROZEN at a fixed base plus a per-thread offset, so TTL code sees exactly
//! the virtual time the explorer chose (no drift). All other clocks and threads pass through to
//! the raw syscall.

use std::cell::Cell;

thread_local! {
    static FROZEN: Cell<bool> = const { Cell::new(false) };
    static NOW_S: Cell<i64> = const { Cell::new(0) };
}

/// base of the virtual wall clock (2030-01-01T00:00:00Z)
pub const BASE_S: i64 = 1_893_456_000;

/// freeze CLOCK_REALTIME for the calling thread at BASE_S + secs
pub fn freeze(secs: u64) {
    NOW_S.with(|c| c.set(BASE_S + secs as i64));
    FROZEN.with(|c| c.set(true));
}

pub fn unfreeze() {
    FROZEN.with(|c| c.set(false));
}

pub fn now_virtual() -> u64 {
    NOW_S.with(|c| (c.get() - BASE_S) as u64)
}

/// # Safety
/// Same contract as libc's clock_gettime: `ts` must be valid for writes.
#[unsafe(no_mangle)]
pub unsafe extern "C" fn clock_gettime(clk: libc::clockid_t, ts: *mut libc::timespec) -> libc::c_int {
    let r = unsafe { libc::syscall(libc::SYS_clock_gettime, clk as libc::c_long, ts) } as libc::c_int;
    if r == 0 && clk == libc::CLOCK_REALTIME && !ts.is_null() {
        let frozen = FROZEN.try_with(|c| c.get()).unwrap_or(false);
        if frozen {
            let s = NOW_S.try_with(|c| c.get()).unwrap_or(0);
            unsafe {
                (*ts).tv_sec = s;
                (*ts).tv_nsec = 0;
            }
        }
    }
    r
}

/// Self-test: SystemTime::now() must follow the frozen clock on this thread.
pub fn self_test() -> Result<(), String> {
    freeze(1234);
    let a = std::time::SystemTime::now().duration_since(std::time::UNIX_EPOCH).map(|d| d.as_secs()).unwrap_or(0);
    freeze(5678);
    let b = std::time::SystemTime::now().duration_since(std::time::UNIX_EPOCH).map(|d| d.as_secs()).unwrap_or(0);
    unfreeze();
    if a as i64 == BASE_S + 1234 && b as i64 == BASE_S + 5678 {
        Ok(())
    } else {
        Err(format!("clock interposition is not effective: got {a} and {b}"))
    }
}
