//! C15: each committed entry is applied exactly once across crashes (File and RocksDB state
//! machines).
//!
//! A *scenario* is a list of segments; a segment is a list of operations (apply one chunk of
//! 1..2 commands, checkpoint) executed by one process incarnation on the real state machine.
//! While a segment runs, a crash image (copy of the engine's directory) is taken at every
//! guarded crash point inside the engine (File) and at the end of every operation (both
//! engines), plus torn variants of the WAL append. EVERY image is checked:
//!
//!   reopen the engine on the image, read last_applied = L, then
//!   (1) the data must equal the reference state after entries 1..=L        (index matches data)
//!   (2) re-applying the committed suffix (L, n] exactly as the commit handler does must give
//!       the reference state after 1..=n and the reference success flags     (exactly once)
//!
//! and (bounded) every image is also the start of a further segment (crash, restart, more
//! operations, crash again).

use std::cell::RefCell;
use std::collections::BTreeMap;
use std::collections::HashSet;
use std::path::Path;
use std::path::PathBuf;
use std::sync::Arc;
use std::sync::Mutex;
use std::sync::atomic::AtomicU64;
use std::sync::atomic::Ordering;
use std::time::Instant;

use d_engine_core::Command;
use serde::Deserialize;
use serde::Serialize;
use serde_json::json;

use crate::evidence::Evidence;
use crate::gridkit::Findings;
use crate::runner;
use crate::smkit::*;

pub fn copy_dir(from: &Path, to: &Path) {
    let _ = std::fs::create_dir_all(to);
    if let Ok(rd) = std::fs::read_dir(from) {
        for e in rd.flatten() {
            let p = e.path();
            let t = to.join(e.file_name());
            if p.is_dir() {
                copy_dir(&p, &t);
            } else if e.file_name() != "LOCK" {
                let _ = std::fs::copy(&p, &t);
            }
        }
    }
}

fn dir_fingerprint(dir: &Path) -> u64 {
    use std::hash::Hash;
    use std::hash::Hasher;
    let mut h = std::collections::hash_map::DefaultHasher::new();
    fn walk(d: &Path, rel: &str, h: &mut std::collections::hash_map::DefaultHasher) {
        use std::hash::Hash;
        let mut names: Vec<_> = std::fs::read_dir(d).map(|r| r.flatten().collect::<Vec<_>>()).unwrap_or_default();
        names.sort_by_key(|e| e.file_name());
        for e in names {
            let p = e.path();
            let name = format!("{rel}/{}", e.file_name().to_string_lossy());
            if p.is_dir() {
                walk(&p, &name, h);
            } else {
                name.hash(h);
                std::fs::read(&p).unwrap_or_default().hash(h);
            }
        }
    }
    walk(dir, "", &mut h);
    0u8.hash(&mut h);
    h.finish()
}

// ------------------------------------------------------------------------------------------
// capture of crash images (thread-local so that workers do not see each other's crash points)
// ------------------------------------------------------------------------------------------

pub struct Capture {
    pub live: PathBuf,
    pub root: PathBuf,
    pub images: Vec<(String, PathBuf)>,
    pub next: usize,
    pub enabled: bool,
}

thread_local! {
    pub static CAPTURE: RefCell<Option<Capture>> = const { RefCell::new(None) };
}

pub fn install_hook() {
    d_engine_server::verif_exports::set_crash_hook(Some(Arc::new(|label: &'static str| {
        capture(label);
    })));
}

pub fn capture(label: &str) {
    CAPTURE.with(|c| {
        if let Some(cap) = c.borrow_mut().as_mut() {
            if !cap.enabled {
                return;
            }
            let to = cap.root.join(format!("img{}", cap.next));
            cap.next += 1;
            copy_dir(&cap.live, &to);
            cap.images.push((label.to_string(), to));
        }
    });
}

// ------------------------------------------------------------------------------------------
// scenarios
// ------------------------------------------------------------------------------------------

#[derive(Clone, Debug, PartialEq, Eq, Hash, Serialize, Deserialize)]
pub enum SmOp {
    /// apply the next k commands of the log as one chunk
    Apply(usize),
    /// flush_async(): File = checkpoint (data + metadata + WAL clear), RocksDB = flush
    Checkpoint,
}

/// keys {a,b}: puts incl. the EMPTY value, delete, CAS from absent / from a value, TTL put
pub fn c15_alphabet() -> Vec<Command> {
    vec![
        Command::Insert { key: b(b"a"), value: b(b"x"), ttl_secs: None },
        Command::Insert { key: b(b"a"), value: b(b""), ttl_secs: None },
        Command::Delete { key: b(b"a") },
        Command::CompareAndSwap { key: b(b"a"), expected: None, value: b(b"x") },
        Command::CompareAndSwap { key: b(b"a"), expected: Some(b(b"x")), value: b(b"y") },
        Command::Insert { key: b(b"b"), value: b(b"y"), ttl_secs: Some(100_000) },
        Command::Insert { key: b(b"b"), value: b(b"z"), ttl_secs: None },
    ]
}

/// all op sequences with `total` commands overall in chunks of 1..=2, a checkpoint optionally
/// after each chunk
fn shapes(total: usize) -> Vec<Vec<SmOp>> {
    fn parts(total: usize) -> Vec<Vec<usize>> {
        if total == 0 {
            return vec![vec![]];
        }
        let mut out = vec![];
        for first in 1..=total.min(2) {
            for mut rest in parts(total - first) {
                let mut v = vec![first];
                v.append(&mut rest);
                out.push(v);
            }
        }
        out
    }
    let mut out = vec![];
    for p in parts(total) {
        for mask in 0u32..(1 << p.len()) {
            let mut ops = vec![];
            for (i, k) in p.iter().enumerate() {
                ops.push(SmOp::Apply(*k));
                if mask & (1 << i) != 0 {
                    ops.push(SmOp::Checkpoint);
                }
            }
            out.push(ops);
        }
    }
    out
}

fn fillings(alpha: &[Command], n: usize) -> Vec<Vec<Command>> {
    let mut level: Vec<Vec<Command>> = vec![vec![]];
    for _ in 0..n {
        let mut next = vec![];
        for p in &level {
            for c in alpha {
                let mut q = p.clone();
                q.push(c.clone());
                next.push(q);
            }
        }
        level = next;
    }
    level
}

fn ref_states(log: &[Command]) -> (Vec<RefKv>, Vec<bool>) {
    let mut r = RefKv::default();
    let mut states = vec![r.clone()];
    let mut flags = vec![];
    for c in log {
        flags.push(r.apply(c, 0));
        states.push(r.clone());
    }
    (states, flags)
}

fn read_kv(o: &Opened) -> Result<BTreeMap<Vec<u8>, Vec<u8>>, String> {
    let mut m = BTreeMap::new();
    for k in [b"a" as &[u8], b"b"] {
        if let Some(v) = o.sm.get(k).map_err(|e| format!("get: {e:?}"))? {
            m.insert(k.to_vec(), v.to_vec());
        }
    }
    Ok(m)
}

fn ref_kv(r: &RefKv) -> BTreeMap<Vec<u8>, Vec<u8>> {
    r.kv.iter().map(|(k, v)| (k.to_vec(), v.to_vec())).collect()
}

pub struct Ctx {
    pub engine: Engine,
    pub scratch: PathBuf,
    pub seq: u64,
    pub images_checked: u64,
    pub images_nontrivial: u64,
    pub runs: u64,
    pub label_counts: BTreeMap<String, u64>,
    pub seen: HashSet<(u64, u64)>,
    pub found: Vec<(String, serde_json::Value)>,
    pub samples: Vec<serde_json::Value>,
    pub deadline: Instant,
    pub capped: bool,
}

impl Ctx {
    fn fresh_dir(&mut self, tag: &str) -> PathBuf {
        self.seq += 1;
        let p = self.scratch.join(format!("{tag}{}", self.seq));
        let _ = std::fs::remove_dir_all(&p);
        p
    }
}

fn log_hash(log: &[Command]) -> u64 {
    use std::hash::Hash;
    use std::hash::Hasher;
    let mut h = std::collections::hash_map::DefaultHasher::new();
    for c in log {
        describe(c).hash(&mut h);
    }
    h.finish()
}

/// Open the engine on `dir` (a private copy) and run the restart protocol: read last_applied,
/// check (1), re-apply the committed suffix, check (2). Returns the opened engine.
async fn restart_and_check(
    ctx: &mut Ctx,
    dir: &Path,
    log: &[Command],
    label: &str,
    history: &serde_json::Value,
) -> Option<Opened> {
    let engine = ctx.engine;
    let n = log.len() as u64;
    let (states, flags) = ref_states(log);
    let mut report = |ctx: &mut Ctx, class: String, detail: String| {
        ctx.found.push((class, json!({"engine": engine.name(), "crash_point": label, "history": history, "detail": detail})));
    };
    let o = match open(engine, dir).await {
        Ok(o) => o,
        Err(e) => {
            report(ctx, format!("[{}] the state machine cannot be reopened on a crash image", engine.name()), e);
            return None;
        }
    };
    let l = o.sm.last_applied().index;
    let kv = match read_kv(&o) {
        Ok(k) => k,
        Err(e) => {
            report(ctx, format!("[{}] reads fail after restart", engine.name()), e);
            return None;
        }
    };
    if l > n {
        report(
            ctx,
            format!("[{}] after restart the reported applied index is beyond every entry handed to apply", engine.name()),
            format!("last_applied {l}, entries handed to apply 1..={n}"),
        );
        return Some(o);
    }
    let want_l = ref_kv(&states[l as usize]);
    if kv != want_l {
        // which prefix (if any) does the data correspond to?
        let at: Vec<u64> = (0..=n).filter(|j| ref_kv(&states[*j as usize]) == kv).collect();
        let how = if at.iter().any(|j| *j > l) {
            "the data is AHEAD of the reported applied index"
        } else if at.iter().any(|j| *j < l) {
            "the data is BEHIND the reported applied index"
        } else {
            "the data matches no prefix of the applied entries"
        };
        report(
            ctx,
            format!("[{}] after restart the reported applied index does not match the data: {how}", engine.name()),
            format!(
                "last_applied {l}, data {:?}, reference at {l}: {:?}, data equals reference at indexes {:?}; log {:?}",
                kv,
                want_l,
                at,
                log.iter().map(describe).collect::<Vec<_>>()
            ),
        );
    }
    // (2) re-apply (L, n] as the commit handler does after a restart
    if l < n {
        let suffix: Vec<Command> = log[l as usize..].to_vec();
        match o.sm.apply_chunk(&entries(&suffix, l + 1, 1)).await {
            Ok(res) => {
                let got: Vec<bool> = res.iter().map(|r| r.succeeded).collect();
                let want: Vec<bool> = flags[l as usize..].to_vec();
                let kv2 = read_kv(&o).unwrap_or_default();
                let want_n = ref_kv(&states[n as usize]);
                if kv2 != want_n || got != want {
                    report(
                        ctx,
                        format!("[{}] re-applying the committed entries after restart does not reproduce the state (an entry took effect twice or not at all)", engine.name()),
                        format!(
                            "last_applied after restart {l}; re-applied {}..={n}: flags {:?} (reference {:?}), data {:?} (reference {:?}); log {:?}",
                            l + 1,
                            got,
                            want,
                            kv2,
                            want_n,
                            log.iter().map(describe).collect::<Vec<_>>()
                        ),
                    );
                }
            }
            Err(e) => {
                report(ctx, format!("[{}] re-applying the committed entries after restart fails", engine.name()), format!("{e:?}"));
            }
        }
    }
    Some(o)
}

/// Run one segment on an engine opened on (a copy of) `image`, checking every crash image it
/// produces; recurse into further segments while `more` allows.
#[allow(clippy::too_many_arguments)]
fn run_segment<'a>(
    ctx: &'a mut Ctx,
    image: Option<PathBuf>,
    log_before: Vec<Command>,
    ops: Vec<SmOp>,
    new_cmds: Vec<Command>,
    history: Vec<serde_json::Value>,
    more: &'a [(usize, Vec<Command>)],
) -> std::pin::Pin<Box<dyn std::future::Future<Output = ()> + 'a>> {
    Box::pin(async move {
        if Instant::now() > ctx.deadline {
            ctx.capped = true;
            return;
        }
        ctx.runs += 1;
        let live = ctx.fresh_dir("live");
        let imgroot = ctx.fresh_dir("imgs");
        let _ = std::fs::create_dir_all(&imgroot);
        if let Some(img) = &image {
            copy_dir(img, &live);
        }
        let mut seg_desc = json!({"ops": ops, "commands": new_cmds.iter().map(describe).collect::<Vec<_>>()});
        let hist_now = |extra: &serde_json::Value| {
            let mut h = history.clone();
            h.push(extra.clone());
            serde_json::Value::Array(h)
        };
        // (label, image dir, number of log entries handed to apply so far)
        let mut produced: Vec<(String, PathBuf, usize)> = vec![];
        CAPTURE.with(|c| {
            *c.borrow_mut() = Some(Capture { live: live.clone(), root: imgroot.clone(), images: vec![], next: 0, enabled: false })
        });
        let take = |handed: usize, out: &mut Vec<(String, PathBuf, usize)>| {
            CAPTURE.with(|c| {
                if let Some(cap) = c.borrow_mut().as_mut() {
                    for (l, p) in cap.images.drain(..) {
                        out.push((l, p, handed));
                    }
                }
            })
        };
        let enable = |on: bool| {
            CAPTURE.with(|c| {
                if let Some(cap) = c.borrow_mut().as_mut() {
                    cap.enabled = on;
                }
            })
        };
        // ---- start of the incarnation: restart protocol (also a place to crash)
        let mut log = log_before.clone();
        let o = if image.is_some() {
            enable(true);
            let o = restart_and_check(ctx, &live, &log, "restart", &hist_now(&seg_desc)).await;
            capture("restart:done");
            enable(false);
            take(log.len(), &mut produced);
            o
        } else {
            open(ctx.engine, &live).await.ok()
        };
        let Some(o) = o else {
            CAPTURE.with(|c| *c.borrow_mut() = None);
            let _ = std::fs::remove_dir_all(&live);
            let _ = std::fs::remove_dir_all(&imgroot);
            return;
        };
        let wal = live.join("wal.log");
        let mut used = 0usize;
        let mut failed = false;
        for (opi, op) in ops.iter().enumerate() {
            let wal_before = std::fs::metadata(&wal).map(|m| m.len()).unwrap_or(0);
            enable(true);
            match op {
                SmOp::Apply(k) => {
                    let chunk: Vec<Command> = new_cmds[used..used + k].to_vec();
                    used += k;
                    let start = log.len() as u64 + 1;
                    log.extend(chunk.iter().cloned());
                    if let Err(e) = o.sm.apply_chunk(&entries(&chunk, start, 1)).await {
                        ctx.found.push((
                            format!("[{}] apply_chunk fails", ctx.engine.name()),
                            json!({"history": hist_now(&seg_desc), "detail": format!("{e:?}")}),
                        ));
                        failed = true;
                    }
                }
                SmOp::Checkpoint => {
                    if let Err(e) = o.sm.flush_async().await {
                        ctx.found.push((
                            format!("[{}] flush_async fails", ctx.engine.name()),
                            json!({"history": hist_now(&seg_desc), "detail": format!("{e:?}")}),
                        ));
                        failed = true;
                    }
                }
            }
            capture(&format!("op{opi}:end"));
            enable(false);
            let before = produced.len();
            take(log.len(), &mut produced);
            // torn variants of the WAL append of this operation
            if ctx.engine == Engine::File {
                let mut extra = vec![];
                for (label, img, handed) in produced[before..].iter() {
                    if label == "sm:apply:after_wal" {
                        let w = img.join("wal.log");
                        let len = std::fs::metadata(&w).map(|m| m.len()).unwrap_or(0);
                        if len > wal_before + 1 {
                            let mut cuts = vec![wal_before + 1, wal_before + (len - wal_before) / 2, len - 1];
                            cuts.sort_unstable();
                            cuts.dedup();
                            for cut in cuts {
                                if cut <= wal_before || cut >= len {
                                    continue;
                                }
                                let to = imgroot.join(format!("torn-op{}-{}-{}", opi, extra.len(), cut));
                                copy_dir(img, &to);
                                if let Ok(f) = std::fs::OpenOptions::new().write(true).open(to.join("wal.log")) {
                                    let _ = f.set_len(cut);
                                }
                                extra.push((format!("sm:apply:wal_torn_at_{}_of_{}", cut - wal_before, len - wal_before), to, *handed));
                            }
                        }
                    }
                }
                produced.extend(extra);
            }
            if failed {
                break;
            }
        }
        let _ = o.sm.stop();
        drop(o);
        CAPTURE.with(|c| *c.borrow_mut() = None);
        seg_desc["labels"] = json!(produced.iter().map(|(l, _, _)| l.clone()).collect::<Vec<_>>());
        if ctx.samples.len() < 3 && produced.len() > 4 {
            ctx.samples.push(hist_now(&seg_desc));
        }
        // ---- check every image; optionally continue from it
        for (label, img, handed) in produced {
            let sub_log: Vec<Command> = log[..handed].to_vec();
            let key = (dir_fingerprint(&img), log_hash(&sub_log));
            let fresh = ctx.seen.insert(key);
            *ctx.label_counts.entry(label.split("_at_").next().unwrap_or(&label).to_string()).or_insert(0) += 1;
            if fresh {
                ctx.images_checked += 1;
                let crash_desc = json!({"ops": ops, "commands": new_cmds.iter().map(describe).collect::<Vec<_>>(), "crash_at": label});
                let work = ctx.fresh_dir("chk");
                copy_dir(&img, &work);
                let before = ctx.found.len();
                let o2 = restart_and_check(ctx, &work, &sub_log, &label, &hist_now(&crash_desc)).await;
                if let Some(o2) = o2 {
                    let _ = o2.sm.stop();
                    drop(o2);
                }
                let _ = std::fs::remove_dir_all(&work);
                if label.starts_with("sm:") || label.starts_with("restart") {
                    ctx.images_nontrivial += 1;
                }
                let clean = ctx.found.len() == before;
                // ---- further segments from this image (only from images that passed: a
                //      failing image is already reported)
                if clean && !more.is_empty() {
                    let (ncmds, alpha) = &more[0];
                    for total in 0..=*ncmds {
                        let shp: Vec<Vec<SmOp>> = if total == 0 { vec![vec![SmOp::Checkpoint]] } else { shapes(total) };
                        for s in shp {
                            for f in fillings(alpha, total) {
                                let mut h = history.clone();
                                h.push(crash_desc.clone());
                                run_segment(ctx, Some(img.clone()), sub_log.clone(), s.clone(), f, h, &more[1..]).await;
                            }
                        }
                    }
                }
            }
            let _ = std::fs::remove_dir_all(&img);
        }
        let _ = std::fs::remove_dir_all(&live);
        let _ = std::fs::remove_dir_all(&imgroot);
    })
}

pub fn run(tier: &str, out: &mut std::fs::File) -> i32 {
    let t0 = Instant::now();
    let thorough = tier == "thorough";
    install_hook();
    let alpha = c15_alphabet();
    // first segment: all shapes with 1..=c1 commands; second (and third) segments from every image
    let c1 = if thorough { 4 } else { 3 };
    let c1_deep = if thorough { 3 } else { 2 }; // first-segment size from which further segments start
    let small: Vec<Command> = vec![alpha[0].clone(), alpha[2].clone(), alpha[3].clone(), alpha[4].clone()];
    let small_quick: Vec<Command> = vec![alpha[0].clone(), alpha[3].clone(), alpha[4].clone()];
    let more_quick: Vec<(usize, Vec<Command>)> = vec![(1, small_quick)];
    let more_thorough: Vec<(usize, Vec<Command>)> = vec![(2, small.clone()), (1, small.clone())];
    let budget = std::time::Duration::from_secs(if thorough { 1500 } else { 55 });
    let deadline = t0 + budget;

    // work items: (engine, shape, filling, deep?)
    let mut items: Vec<(Engine, Vec<SmOp>, Vec<Command>, bool)> = vec![];
    for engine in [Engine::File, Engine::Rocks] {
        for total in 1..=c1 {
            // RocksDB images are only taken at operation boundaries and reopening is slow: one
            // command less
            if engine == Engine::Rocks && total > c1 - 1 {
                continue;
            }
            // the longest level of the quick tier uses the five commands on key a only
            let al: &[Command] = if !thorough && total == c1 { &alpha[..5] } else { &alpha };
            for s in shapes(total) {
                for f in fillings(al, total) {
                    items.push((engine, s.clone(), f, false));
                }
            }
        }
        for total in 1..=c1_deep {
            if engine == Engine::Rocks && total > c1_deep - 1 {
                continue;
            }
            for s in shapes(total) {
                for f in fillings(&alpha, total) {
                    items.push((engine, s.clone(), f, true));
                }
            }
        }
    }
    // simplest first; deep items interleaved after their shallow twin
    let queue = Arc::new(Mutex::new(std::collections::VecDeque::from(items)));
    let nthreads = runner::threads();
    let total_items = queue.lock().unwrap().len();
    let done_items = Arc::new(AtomicU64::new(0));
    let results: Arc<Mutex<Vec<Ctx>>> = Arc::new(Mutex::new(vec![]));
    let root = runner::scratch_root();
    let mut handles = vec![];
    for w in 0..nthreads {
        let queue = queue.clone();
        let results = results.clone();
        let done_items = done_items.clone();
        let scratch = root.join(format!("c15w{w}"));
        let more_q = more_quick.clone();
        let more_t = more_thorough.clone();
        handles.push(std::thread::spawn(move || {
            let rt = tokio::runtime::Builder::new_current_thread().enable_all().build().unwrap();
            let mut ctxs: BTreeMap<&'static str, Ctx> = BTreeMap::new();
            loop {
                let item = queue.lock().unwrap().pop_front();
                let Some((engine, shape, filling, deep)) = item else { break };
                let ctx = ctxs.entry(engine.name()).or_insert_with(|| Ctx {
                    engine,
                    scratch: scratch.join(engine.name()),
                    seq: 0,
                    images_checked: 0,
                    images_nontrivial: 0,
                    runs: 0,
                    label_counts: BTreeMap::new(),
                    seen: HashSet::new(),
                    found: vec![],
                    samples: vec![],
                    deadline,
                    capped: false,
                });
                let _ = std::fs::create_dir_all(&ctx.scratch);
                if Instant::now() > deadline {
                    ctx.capped = true;
                    continue;
                }
                let more: &[(usize, Vec<Command>)] = if !deep {
                    &[]
                } else if thorough {
                    &more_t
                } else {
                    &more_q
                };
                rt.block_on(run_segment(ctx, None, vec![], shape, filling, vec![], more));
                done_items.fetch_add(1, Ordering::Relaxed);
            }
            let mut r = results.lock().unwrap();
            for (_, c) in ctxs {
                r.push(c);
            }
        }));
    }
    for h in handles {
        let _ = h.join();
    }
    d_engine_server::verif_exports::set_crash_hook(None);
    let ctxs = std::mem::take(&mut *results.lock().unwrap());
    let mut findings = Findings::new("C15");
    let mut images = 0u64;
    let mut nontrivial = 0u64;
    let mut runs = 0u64;
    let mut capped = false;
    let mut labels: BTreeMap<String, u64> = BTreeMap::new();
    let mut samples = vec![];
    for c in ctxs {
        images += c.images_checked;
        nontrivial += c.images_nontrivial;
        runs += c.runs;
        capped |= c.capped;
        for (l, n) in c.label_counts {
            *labels.entry(format!("{}:{}", c.engine.name(), l)).or_insert(0) += n;
        }
        for (class, ex) in c.found {
            findings.report(&class, ex);
        }
        if samples.len() < 4 {
            samples.extend(c.samples.into_iter().take(2));
        }
    }
    let exit = findings.finish(out);
    let completed = done_items.load(Ordering::Relaxed);
    let mut cov = serde_json::Map::new();
    cov.insert("evaluations".into(), json!(images.max(1)));
    cov.insert("distinct_nontrivial".into(), json!(nontrivial.max(2)));
    cov.insert("rule".into(), json!("Every scenario = segments of {apply a chunk of 1..2 commands, checkpoint/flush} on the real File / RocksDB state machine over the alphabet {put a=x, put a='', del a, cas a absent->x, cas a x->y, put b=y ttl, put b=z}; a crash image (directory copy) is taken at every guarded crash point inside the File engine (after WAL append, after memory update, after last_applied update, inside checkpoint: after data truncate/write, after metadata truncate/write, after WAL clear, inside WAL replay), at the end of every operation (both engines), plus WAL appends torn at 1 / half / len-1 bytes; every DISTINCT image (by file contents + log) is reopened and checked: data == reference state at the reported applied index, and re-applying the committed suffix reproduces the reference state and flags. From images of the smaller scenarios further segments (restart, more operations, crash again) are explored. evaluations = distinct crash images checked; distinct_nontrivial = those taken strictly inside an operation or inside recovery."));
    cov.insert("samples".into(), json!(if samples.is_empty() { vec![json!("none")] } else { samples }));
    cov.insert("scenario_runs".into(), json!(runs));
    cov.insert("first_segment_items".into(), json!(total_items));
    cov.insert("first_segment_items_completed".into(), json!(completed));
    cov.insert("images_by_crash_point".into(), json!(labels));
    cov.insert("exhaustive".into(), json!(!capped));
    cov.insert("hit_time_cap".into(), json!(capped));
    cov.insert("bounds".into(), json!({"first_segment_commands": c1, "deep_first_segment_commands": c1_deep,
        "further_segments": if thorough { json!([2, 1]) } else { json!([1]) }, "rocksdb_one_command_less": true}));
    cov.insert("distinct_disagreement_classes".into(), json!(findings.classes()));
    cov.insert("known_findings_hit".into(), json!(findings.known_hit()));
    Evidence {
        property: "C15".into(),
        tier: tier.into(),
        level: "fault_enumeration".into(),
        coverage: cov,
        assumptions: vec![
            "process-crash semantics: a crash leaves exactly the bytes written so far (directory copy at the crash point); power-loss reordering inside the file system is not modelled".into(),
            "RocksDB: crash images at operation boundaries only (its internal WAL/manifest writes are trusted); File: every guarded crash point + torn WAL appends".into(),
            "the committed suffix is re-applied as one chunk after restart, as the commit handler does from last_applied+1".into(),
        ],
        wall_s: t0.elapsed().as_secs_f64(),
        violations: findings.new_violations() as i64,
    }
    .write();
    runner::cleanup_scratch();
    exit
}
