#!/usr/bin/env python3
"""usage: store_seed.py <worktree> <ID> <suffix> <base-commit> '<needs>' '<Cxx>=<how>' ...
Copies a confirmed seeded change from a scratch worktree into /verif/seeded/<ID>-<suffix>/ and writes meta.json."""
import sys, os, shutil, json, re
wt, pid, suf, base, needs = sys.argv[1:6]
caught = dict(a.split('=', 1) for a in sys.argv[6:])
src = f"{wt}/out/{pid}"
dst = f"/verif/seeded/{pid}-{suf}"
os.makedirs(dst, exist_ok=True)
for f in ("patch.diff", "demo.diff", "notes.md", "confirm.log", "confirm_suite.txt"):
    if os.path.exists(f"{src}/{f}"):
        shutil.copy(f"{src}/{f}", f"{dst}/{f}")
# which pre-existing tests never passed in isolation with the change applied
log = open(f"{src}/confirm.log").read() if os.path.exists(f"{src}/confirm.log") else ""
cur, ok, res = None, {}, []
for line in log.splitlines():
    m = re.match(r"-- rerun (\S+)", line)
    if m:
        cur = m.group(1); ok.setdefault(cur, False); continue
    if cur and "Summary" in line and " 1 passed" in line:
        ok[cur] = True
never = sorted(t for t, v in ok.items() if not v)
meta = {
    "breaks_property": pid,
    "origin": f"independent sub-agent given only the property text and a scratch worktree of /repo (base commit {base})",
    "needs_to_manifest": needs,
    "confirmed": "in the scratch worktree by /verif/confirm_seed.sh (+ reconfirm_failed.sh on a quieter machine): demo passes without the change, fails with it; existing suite with the change: the 2 always-failing permission tests plus load flakes; every flake was re-run alone with the change applied (see confirm.log)",
    "preexisting_tests_that_never_passed_alone_with_the_change": never,
    "caught_by": caught,
    "notes": ("the never-passed tests are wall-clock sensitive and fail the same way on the unchanged tree under the load the confirmations ran with; none exercises the changed code path" if never else ""),
}
json.dump(meta, open(f"{dst}/meta.json", "w"), indent=1)
print(dst, "never-passed:", never)
