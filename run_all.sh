#!/bin/bash
# usage: ./run_all.sh [quick|thorough]  — runs every registered check sequentially, prints a summary
tier="${1:-quick}"
cd "$(dirname "$0")"
for p in $(python3 -c "import json;print(' '.join(sorted(json.load(open('engines.json')))))"); do
  s=$(date +%s.%N)
  out=$(./check $p --tier $tier 2>&1); code=$?
  e=$(date +%s.%N)
  printf "%s exit=%d %.1fs %s\n" $p $code $(echo "$e - $s" | bc) "$(echo "$out" | grep -E '^(VIOLATION|KNOWN-FINDING|MACHINERY)' | head -3 | tr '\n' ' ' | cut -c1-200)"
done
